// Package circ walks circuit/assignment structures by reflection: enumerates the
// frontend.Variable leaves with their paths, deep-copies assignments, binds leaves.
package circ

import (
	"fmt"
	"math/big"
	"reflect"
	"regexp"
	"strings"

	"github.com/consensys/gnark/frontend"
	gl "github.com/wormhole-foundation/example-near-light-client/goldilocks"
)

var tVariable = reflect.TypeOf((*frontend.Variable)(nil)).Elem()
var tGL = reflect.TypeOf(gl.Variable{})

// Leaf is one frontend.Variable position of a structure.
type Leaf struct {
	Path string
	Kind string // path with indices stripped
	GL   bool   // Goldilocks-typed (the Limb of a gl.Variable)
	v    reflect.Value
}

func (l Leaf) Get() interface{} { return l.v.Interface() }
func (l Leaf) Set(x interface{}) {
	if x == nil {
		l.v.Set(reflect.Zero(tVariable))
		return
	}
	l.v.Set(reflect.ValueOf(x))
}

// Big returns the integer value held by the leaf (Go constant kinds only).
func (l Leaf) Big() *big.Int { return ToBig(l.Get()) }

func ToBig(x interface{}) *big.Int {
	switch t := x.(type) {
	case uint64:
		return new(big.Int).SetUint64(t)
	case int:
		return big.NewInt(int64(t))
	case *big.Int:
		return new(big.Int).Set(t)
	case big.Int:
		return new(big.Int).Set(&t)
	case string:
		b, ok := new(big.Int).SetString(t, 0)
		if !ok {
			panic("bad string leaf " + t)
		}
		return b
	case interface{ Big() *big.Int }:
		return t.Big()
	case nil:
		panic("nil leaf")
	}
	panic(fmt.Sprintf("leaf type %T", x))
}

var idxRe = regexp.MustCompile(`\[[0-9]+\]`)

// KindOf strips list indices from a path, except the indices of the small structural
// lists (which oracle, which fold step, which commit-phase cap): leaves of different
// oracles / steps are different kinds.
func KindOf(path string) string {
	return idxRe.ReplaceAllStringFunc(keepRe.ReplaceAllString(path, "$1<$2>"), func(string) string { return "[]" })
}

var keepRe = regexp.MustCompile(`(EvalsProofs|Steps|CommitPhaseMerkleCaps)\[([0-9]+)\]`)

// Leaves enumerates the variable leaves reachable from the struct pointed to by p,
// skipping fields tagged gnark:"-".
func Leaves(p interface{}) []Leaf {
	rv := reflect.ValueOf(p)
	if rv.Kind() != reflect.Pointer {
		panic("Leaves needs a pointer")
	}
	var out []Leaf
	walk(rv.Elem(), "", false, &out)
	return out
}

func walk(v reflect.Value, path string, inGL bool, out *[]Leaf) {
	t := v.Type()
	if t == tVariable {
		*out = append(*out, Leaf{Path: path, Kind: KindOf(path), GL: inGL, v: v})
		return
	}
	switch v.Kind() {
	case reflect.Struct:
		isGL := t == tGL
		for i := 0; i < v.NumField(); i++ {
			f := t.Field(i)
			if !f.IsExported() {
				continue
			}
			if tag, ok := f.Tag.Lookup("gnark"); ok && strings.HasPrefix(tag, "-") {
				continue
			}
			np := f.Name
			if path != "" {
				np = path + "." + f.Name
			}
			walk(v.Field(i), np, isGL, out)
		}
	case reflect.Slice, reflect.Array:
		for i := 0; i < v.Len(); i++ {
			walk(v.Index(i), fmt.Sprintf("%s[%d]", path, i), inGL, out)
		}
	case reflect.Pointer:
		if !v.IsNil() {
			walk(v.Elem(), path, inGL, out)
		}
	}
}

// DeepCopy copies the structure pointed to by p (slices are re-allocated; fields tagged
// gnark:"-" and leaf values are shared). Returns a pointer of the same type.
func DeepCopy[T any](p *T) *T {
	rv := reflect.ValueOf(p).Elem()
	n := reflect.New(rv.Type())
	copyVal(n.Elem(), rv)
	return n.Interface().(*T)
}

func copyVal(dst, src reflect.Value) {
	t := src.Type()
	if t == tVariable {
		dst.Set(src)
		return
	}
	switch src.Kind() {
	case reflect.Struct:
		dst.Set(src) // copies unexported and skipped fields shallowly
		for i := 0; i < src.NumField(); i++ {
			f := t.Field(i)
			if !f.IsExported() {
				continue
			}
			if tag, ok := f.Tag.Lookup("gnark"); ok && strings.HasPrefix(tag, "-") {
				continue
			}
			copyVal(dst.Field(i), src.Field(i))
		}
	case reflect.Slice:
		if src.IsNil() {
			dst.Set(src)
			return
		}
		ns := reflect.MakeSlice(t, src.Len(), src.Len())
		for i := 0; i < src.Len(); i++ {
			copyVal(ns.Index(i), src.Index(i))
		}
		dst.Set(ns)
	case reflect.Array:
		for i := 0; i < src.Len(); i++ {
			copyVal(dst.Index(i), src.Index(i))
		}
	default:
		dst.Set(src)
	}
}

// ListRef is one slice-typed position of a structure (for shape mutations).
type ListRef struct {
	Path string
	Kind string
	v    reflect.Value
}

func (l ListRef) Len() int { return l.v.Len() }

// Mutate applies op: dropfirst, droplast, duplast, appendzero, empty.
func (l ListRef) Mutate(op string) bool {
	n := l.v.Len()
	t := l.v.Type()
	switch op {
	case "dropfirst":
		if n == 0 {
			return false
		}
		l.v.Set(l.v.Slice(1, n))
	case "droplast":
		if n == 0 {
			return false
		}
		l.v.Set(l.v.Slice(0, n-1))
	case "duplast":
		if n == 0 {
			return false
		}
		ns := reflect.MakeSlice(t, n+1, n+1)
		reflect.Copy(ns, l.v)
		tmp := reflect.New(t.Elem()).Elem()
		copyVal(tmp, l.v.Index(n-1))
		ns.Index(n).Set(tmp)
		l.v.Set(ns)
	case "appendzero":
		ns := reflect.MakeSlice(t, n+1, n+1)
		reflect.Copy(ns, l.v)
		z := reflect.New(t.Elem()).Elem()
		if n > 0 {
			copyVal(z, l.v.Index(n-1))
		}
		zeroLeaves(z)
		ns.Index(n).Set(z)
		l.v.Set(ns)
	case "empty":
		if n == 0 {
			return false
		}
		l.v.Set(reflect.MakeSlice(t, 0, 0))
	default:
		panic("unknown list op " + op)
	}
	return true
}

func zeroLeaves(v reflect.Value) {
	if v.Type() == tVariable {
		v.Set(reflect.ValueOf(uint64(0)))
		return
	}
	switch v.Kind() {
	case reflect.Struct:
		for i := 0; i < v.NumField(); i++ {
			if v.Type().Field(i).IsExported() {
				zeroLeaves(v.Field(i))
			}
		}
	case reflect.Slice, reflect.Array:
		for i := 0; i < v.Len(); i++ {
			zeroLeaves(v.Index(i))
		}
	}
}

// Lists enumerates slice positions (not arrays) under p, skipping gnark:"-" fields.
func Lists(p interface{}) []ListRef {
	var out []ListRef
	walkLists(reflect.ValueOf(p).Elem(), "", &out)
	return out
}

func walkLists(v reflect.Value, path string, out *[]ListRef) {
	t := v.Type()
	if t == tVariable {
		return
	}
	switch v.Kind() {
	case reflect.Struct:
		for i := 0; i < v.NumField(); i++ {
			f := t.Field(i)
			if !f.IsExported() {
				continue
			}
			if tag, ok := f.Tag.Lookup("gnark"); ok && strings.HasPrefix(tag, "-") {
				continue
			}
			np := f.Name
			if path != "" {
				np = path + "." + f.Name
			}
			walkLists(v.Field(i), np, out)
		}
	case reflect.Slice:
		*out = append(*out, ListRef{Path: path, Kind: KindOf(path), v: v})
		for i := 0; i < v.Len(); i++ {
			walkLists(v.Index(i), fmt.Sprintf("%s[%d]", path, i), out)
		}
	case reflect.Array:
		for i := 0; i < v.Len(); i++ {
			walkLists(v.Index(i), fmt.Sprintf("%s[%d]", path, i), out)
		}
	}
}
