package circ

import (
	"github.com/consensys/gnark-crypto/ecc/bn254/fr"

	"verifharness/engine"
)

// BindInputs replaces every variable leaf under p by an engine input value carrying a
// shadow (adversarial bound r-1 or the justified bound from cfg.Known; honest bound p-1 for
// Goldilocks-typed leaves, r-1 for hashes). Returns the number of leaves bound.
func BindInputs(p interface{}, cfg *engine.ShadowCfg) int {
	ls := Leaves(p)
	for i, l := range ls {
		var e fr.Element
		e.SetBigInt(l.Big())
		hon := engine.HonField()
		if l.GL {
			hon = engine.HonGoldilocks()
		}
		v := &engine.V{E: e, S: engine.InputShadow(cfg, engine.InputLeafKey(i), hon)}
		l.Set(v)
	}
	return len(ls)
}
