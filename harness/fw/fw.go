// Package fw is the check runner: case lists derived from (seed, tier), parallel
// execution, three-valued verdicts, evidence, known findings, replay files.
package fw

import (
	"crypto/sha256"
	"encoding/hex"
	"encoding/json"
	"fmt"
	"hash/fnv"
	"math/rand"
	"os"
	"os/exec"
	"path/filepath"
	"runtime"
	"sort"
	"strconv"
	"sync"
	"time"
)

func VerifRoot() string {
	if r := os.Getenv("VERIF_ROOT"); r != "" {
		return r
	}
	return "/verif"
}

// Case is one execution to perform; it must be reproducible from its fields alone.
type Case struct {
	ID   string         `json:"id"`
	Kind string         `json:"kind"`
	P    map[string]any `json:"p,omitempty"`
}

func (c Case) Str(k string) string {
	if v, ok := c.P[k]; ok {
		if s, ok := v.(string); ok {
			return s
		}
		return fmt.Sprint(v)
	}
	return ""
}

func (c Case) Int(k string) int {
	switch v := c.P[k].(type) {
	case int:
		return v
	case int64:
		return int(v)
	case uint64:
		return int(v)
	case float64:
		return int(v)
	case json.Number:
		i, _ := v.Int64()
		return int(i)
	case string:
		i, _ := strconv.Atoi(v)
		return i
	}
	return 0
}

func (c Case) U64(k string) uint64 {
	switch v := c.P[k].(type) {
	case uint64:
		return v
	case int:
		return uint64(v)
	case float64:
		return uint64(v)
	case string:
		u, _ := strconv.ParseUint(v, 10, 64)
		return u
	}
	return 0
}

func (c Case) Bool(k string) bool {
	b, _ := c.P[k].(bool)
	return b
}

// Outcome of one case.
type Outcome struct {
	Violation    bool
	Key          string // identifies the failing thing for known-findings matching
	Detail       string
	Inconclusive bool
	Trivial      bool           // does not count towards distinct_nontrivial
	Count        map[string]int // counters merged into the evidence
	Sample       any            // optional description of what was observed
	Events       int            // monitor events observed (asserts+hints+checks)
}

func (o *Outcome) Inc(k string) {
	if o.Count == nil {
		o.Count = map[string]int{}
	}
	o.Count[k]++
}
func (o *Outcome) Add(k string, n int) {
	if o.Count == nil {
		o.Count = map[string]int{}
	}
	o.Count[k] += n
}

func Violate(key, detail string) Outcome { return Outcome{Violation: true, Key: key, Detail: detail} }
func Inconcl(detail string) Outcome      { return Outcome{Inconclusive: true, Detail: detail} }

type Ctx struct {
	Prop  string
	Tier  string
	Seed  int64
	Quick bool
	mu    sync.Mutex
	store map[string]any
	Extra map[string]any // extra coverage keys set by Finish/Exec
}

// Rand returns a deterministic PRNG for a named stream.
func (c *Ctx) Rand(stream string) *rand.Rand {
	h := fnv.New64a()
	h.Write([]byte(c.Prop + "/" + stream))
	return rand.New(rand.NewSource(c.Seed*1000003 + int64(h.Sum64()&0x7fffffffffff)))
}

// Once caches an expensive shared value.
func (c *Ctx) Once(key string, f func() any) any {
	c.mu.Lock()
	if v, ok := c.store[key]; ok {
		c.mu.Unlock()
		if w, ok := v.(*onceVal); ok {
			w.wg.Wait()
			return w.v
		}
		return v
	}
	w := &onceVal{}
	w.wg.Add(1)
	c.store[key] = w
	c.mu.Unlock()
	w.v = f()
	w.wg.Done()
	return w.v
}

type onceVal struct {
	wg sync.WaitGroup
	v  any
}

func (c *Ctx) SetExtra(k string, v any) {
	c.mu.Lock()
	c.Extra[k] = v
	c.mu.Unlock()
}

// Prop is one property check.
type Prop struct {
	ID          string
	Level       string // exploration | fault_enumeration
	Rule        string
	Assumptions []string
	Jobs        int // 0 = default
	Setup       func(ctx *Ctx) error
	Gen         func(ctx *Ctx) []Case
	Exec        func(ctx *Ctx, c Case) Outcome
	Finish      func(ctx *Ctx, agg *Agg) []Outcome // global judgements after all cases
	CaseTimeout time.Duration
	MinEvents   int // a run observing fewer monitor events is inconclusive
}

type Agg struct {
	Evaluations int
	Distinct    map[string]bool
	Count       map[string]int
	Samples     []any
	Events      int
}

type knownFinding struct {
	Property string `json:"property"`
	Status   string `json:"status"` // known | fixed
	Key      string `json:"key"`
	Commit   string `json:"commit,omitempty"`
	What     string `json:"what"`
}

func loadKnown() []knownFinding {
	b, err := os.ReadFile(filepath.Join(VerifRoot(), "known_findings.json"))
	if err != nil {
		return nil
	}
	var k struct {
		Findings []knownFinding `json:"findings"`
	}
	if err := json.Unmarshal(b, &k); err != nil {
		fmt.Fprintln(os.Stderr, "known_findings.json unreadable:", err)
		return nil
	}
	return k.Findings
}

type violation struct {
	c Case
	o Outcome
}

// Run executes a property check and returns the process exit code.
func Run(p *Prop, tier string, seed int64) int {
	t0 := time.Now()
	ctx := &Ctx{Prop: p.ID, Tier: tier, Seed: seed, Quick: tier != "thorough", store: map[string]any{}, Extra: map[string]any{}}
	if p.Setup != nil {
		if err := p.Setup(ctx); err != nil {
			fmt.Printf("INCONCLUSIVE property=%s setup: %v\n", p.ID, err)
			return 2
		}
	}
	cases := p.Gen(ctx)
	jobs := p.Jobs
	if jobs == 0 {
		jobs = runtime.NumCPU()
	}
	if j := os.Getenv("VERIF_JOBS"); j != "" {
		if n, err := strconv.Atoi(j); err == nil && n > 0 {
			jobs = n
		}
	}
	timeout := p.CaseTimeout
	if timeout == 0 {
		timeout = 20 * time.Minute
	}
	agg := &Agg{Distinct: map[string]bool{}, Count: map[string]int{}}
	var viols []violation
	var inconcl []string
	var mu sync.Mutex
	ch := make(chan Case)
	var wg sync.WaitGroup
	for w := 0; w < jobs; w++ {
		wg.Add(1)
		go func() {
			defer wg.Done()
			for c := range ch {
				o := execWithWatchdog(p, ctx, c, timeout)
				mu.Lock()
				agg.Evaluations++
				agg.Events += o.Events
				if !o.Trivial {
					agg.Distinct[c.ID] = true
				} else {
					agg.Count["trivial_skipped"]++
				}
				for k, v := range o.Count {
					agg.Count[k] += v
				}
				if o.Sample != nil && len(agg.Samples) < 6 {
					agg.Samples = append(agg.Samples, map[string]any{"case": c, "observed": o.Sample})
				}
				if o.Violation {
					viols = append(viols, violation{c, o})
				}
				if o.Inconclusive {
					inconcl = append(inconcl, c.ID+": "+o.Detail)
				}
				mu.Unlock()
			}
		}()
	}
	var envCases = map[string][]Case{}
	for _, c := range cases {
		if env := c.Str("env"); env != "" && os.Getenv("VERIF_CHILD") == "" {
			envCases[env] = append(envCases[env], c)
			continue
		}
		ch <- c
	}
	close(ch)
	wg.Wait()
	for env, cs := range envCases {
		outs, err := runChild(p.ID, tier, seed, env, cs)
		if err != nil {
			inconcl = append(inconcl, "child process for env "+env+": "+err.Error())
			continue
		}
		for i, o := range outs {
			c := cs[i]
			agg.Evaluations++
			agg.Events += o.Events
			if !o.Trivial {
				agg.Distinct[c.ID] = true
			} else {
				agg.Count["trivial_skipped"]++
			}
			for k, v := range o.Count {
				agg.Count[k] += v
			}
			if o.Sample != nil && len(agg.Samples) < 8 {
				agg.Samples = append(agg.Samples, map[string]any{"case": c, "observed": o.Sample})
			}
			if o.Violation {
				viols = append(viols, violation{c, o})
			}
			if o.Inconclusive {
				inconcl = append(inconcl, c.ID+": "+o.Detail)
			}
		}
	}
	if p.Finish != nil {
		for _, o := range p.Finish(ctx, agg) {
			if o.Violation {
				viols = append(viols, violation{Case{ID: "finish/" + o.Key, Kind: "finish"}, o})
			}
			if o.Inconclusive {
				inconcl = append(inconcl, "finish: "+o.Detail)
			}
			for k, v := range o.Count {
				agg.Count[k] += v
			}
		}
	}
	if len(agg.Samples) == 0 && len(cases) > 0 {
		agg.Samples = append(agg.Samples, map[string]any{"case": cases[0]})
	}
	// classify violations against the known-findings file
	known := loadKnown()
	sort.Slice(viols, func(i, j int) bool { return viols[i].c.ID < viols[j].c.ID })
	knownHit := map[string]int{}
	newViol := 0
	printed := 0
	for _, v := range viols {
		matched := false
		for _, k := range known {
			if k.Property == p.ID && k.Status == "known" && k.Key == v.o.Key {
				knownHit[k.Key+"\x00"+k.What]++
				matched = true
				break
			}
		}
		if matched {
			continue
		}
		newViol++
		if printed < 25 {
			path := writeReplay(p.ID, tier, seed, v)
			fmt.Printf("VIOLATION property=%s replay=%s\n", p.ID, path)
			fmt.Printf("  key=%s case=%s detail=%s\n", v.o.Key, v.c.ID, v.o.Detail)
			printed++
		}
	}
	var khKeys []string
	for k := range knownHit {
		khKeys = append(khKeys, k)
	}
	sort.Strings(khKeys)
	for _, k := range khKeys {
		var key, what string
		for i := 0; i < len(k); i++ {
			if k[i] == 0 {
				key, what = k[:i], k[i+1:]
			}
		}
		fmt.Printf("KNOWN-FINDING: property=%s %s [key=%s, %d cases]\n", p.ID, what, key, knownHit[k])
	}
	if newViol > printed {
		fmt.Printf("  (%d further violations not printed)\n", newViol-printed)
	}
	if newViol > 0 {
		kc := map[string]int{}
		for _, v := range viols {
			kc[v.o.Key]++
		}
		var ks []string
		for k := range kc {
			ks = append(ks, k)
		}
		sort.Strings(ks)
		for _, k := range ks {
			fmt.Printf("  violation-key %s x%d\n", k, kc[k])
		}
	}
	// evidence
	cov := map[string]any{
		"evaluations":         agg.Evaluations,
		"distinct_nontrivial": len(agg.Distinct),
		"rule":                p.Rule,
		"samples":             agg.Samples,
		"counters":            agg.Count,
		"monitor_events":      agg.Events,
		"cases_generated":     len(cases),
		"inconclusive":        len(inconcl),
		"known_finding_hits":  len(viols) - newViol,
	}
	for k, v := range ctx.Extra {
		cov[k] = v
	}
	ev := map[string]any{
		"property_id": p.ID,
		"tier":        tier,
		"seed":        seed,
		"level":       p.Level,
		"coverage":    cov,
		"assumptions": p.Assumptions,
		"wall_s":      time.Since(t0).Seconds(),
		"violations":  newViol,
	}
	writeEvidence(p.ID, ev)
	fmt.Printf("SUMMARY property=%s tier=%s seed=%d evaluations=%d distinct_nontrivial=%d events=%d violations=%d known=%d inconclusive=%d wall=%.1fs\n",
		p.ID, tier, seed, agg.Evaluations, len(agg.Distinct), agg.Events, newViol, len(viols)-newViol, len(inconcl), time.Since(t0).Seconds())
	if newViol > 0 {
		return 1
	}
	if len(inconcl) > 0 {
		for i, s := range inconcl {
			if i >= 10 {
				break
			}
			fmt.Printf("INCONCLUSIVE property=%s %s\n", p.ID, s)
		}
		return 2
	}
	if agg.Evaluations == 0 || len(agg.Distinct) < 2 || agg.Events < p.MinEvents {
		fmt.Printf("INCONCLUSIVE property=%s observed too little (evaluations=%d distinct=%d events=%d, need events>=%d)\n", p.ID, agg.Evaluations, len(agg.Distinct), agg.Events, p.MinEvents)
		return 2
	}
	return 0
}

func execWithWatchdog(p *Prop, ctx *Ctx, c Case, timeout time.Duration) (o Outcome) {
	done := make(chan Outcome, 1)
	go func() {
		defer func() {
			if r := recover(); r != nil {
				buf := make([]byte, 4096)
				n := runtime.Stack(buf, false)
				done <- Inconcl(fmt.Sprintf("harness panic in case %s: %v\n%s", c.ID, r, buf[:n]))
			}
		}()
		done <- p.Exec(ctx, c)
	}()
	select {
	case o = <-done:
		return o
	case <-time.After(timeout):
		return Inconcl("watchdog: case " + c.ID + " exceeded " + timeout.String())
	}
}

func writeReplay(prop, tier string, seed int64, v violation) string {
	dir := filepath.Join(VerifRoot(), "replays", prop)
	os.MkdirAll(dir, 0o755)
	body := map[string]any{"property": prop, "tier": tier, "seed": seed, "case": v.c, "key": v.o.Key, "detail": v.o.Detail}
	b, _ := json.MarshalIndent(body, "", " ")
	h := sha256.Sum256([]byte(v.c.ID + v.o.Key))
	path := filepath.Join(dir, hex.EncodeToString(h[:6])+".json")
	os.WriteFile(path, b, 0o644)
	return path
}

func writeEvidence(prop string, ev map[string]any) {
	dir := filepath.Join(VerifRoot(), "evidence")
	os.MkdirAll(dir, 0o755)
	b, err := json.MarshalIndent(ev, "", " ")
	if err != nil {
		fmt.Fprintln(os.Stderr, "evidence marshal:", err)
		return
	}
	os.WriteFile(filepath.Join(dir, prop+".json"), b, 0o644)
}

// Replay re-executes the case stored in a replay file.
func Replay(p *Prop, path string) int {
	b, err := os.ReadFile(path)
	if err != nil {
		fmt.Println("cannot read replay:", err)
		return 2
	}
	var body struct {
		Tier string `json:"tier"`
		Seed int64  `json:"seed"`
		Case Case   `json:"case"`
	}
	if err := json.Unmarshal(b, &body); err != nil {
		fmt.Println("bad replay file:", err)
		return 2
	}
	ctx := &Ctx{Prop: p.ID, Tier: body.Tier, Seed: body.Seed, Quick: body.Tier != "thorough", store: map[string]any{}, Extra: map[string]any{}}
	if p.Setup != nil {
		if err := p.Setup(ctx); err != nil {
			fmt.Println("INCONCLUSIVE setup:", err)
			return 2
		}
	}
	if body.Case.Kind == "finish" {
		fmt.Println("this violation was raised by the global judgement of the run; re-run the check itself")
		return 2
	}
	o := p.Exec(ctx, body.Case)
	fmt.Printf("replay case=%s violation=%v key=%s detail=%s\n", body.Case.ID, o.Violation, o.Key, o.Detail)
	if o.Violation {
		fmt.Printf("VIOLATION property=%s replay=%s\n", p.ID, path)
		return 1
	}
	if o.Inconclusive {
		return 2
	}
	return 0
}

// runChild executes cases in a child process with an environment assignment (K=V).
func runChild(prop, tier string, seed int64, env string, cs []Case) ([]Outcome, error) {
	dir := filepath.Join(VerifRoot(), "scratch")
	os.MkdirAll(dir, 0o755)
	in := filepath.Join(dir, fmt.Sprintf("child_%s_%d_in.json", prop, os.Getpid()))
	out := filepath.Join(dir, fmt.Sprintf("child_%s_%d_out.json", prop, os.Getpid()))
	defer os.Remove(in)
	defer os.Remove(out)
	b, _ := json.Marshal(cs)
	if err := os.WriteFile(in, b, 0o644); err != nil {
		return nil, err
	}
	cmd := execCommand(os.Args[0], "child", prop, tier, strconv.FormatInt(seed, 10), in, out)
	cmd.Env = append(os.Environ(), env, "VERIF_CHILD=1")
	cmd.Stderr = os.Stderr
	if err := cmd.Run(); err != nil {
		return nil, fmt.Errorf("child failed: %v", err)
	}
	ob, err := os.ReadFile(out)
	if err != nil {
		return nil, err
	}
	var outs []Outcome
	if err := json.Unmarshal(ob, &outs); err != nil {
		return nil, err
	}
	if len(outs) != len(cs) {
		return nil, fmt.Errorf("child returned %d outcomes for %d cases", len(outs), len(cs))
	}
	return outs, nil
}

// Child is the entry point of the child process.
func Child(p *Prop, tier string, seed int64, inPath, outPath string) int {
	b, err := os.ReadFile(inPath)
	if err != nil {
		return 2
	}
	var cs []Case
	if err := json.Unmarshal(b, &cs); err != nil {
		return 2
	}
	ctx := &Ctx{Prop: p.ID, Tier: tier, Seed: seed, Quick: tier != "thorough", store: map[string]any{}, Extra: map[string]any{}}
	if p.Setup != nil {
		if err := p.Setup(ctx); err != nil {
			return 2
		}
	}
	outs := make([]Outcome, len(cs))
	jobs := runtime.NumCPU()
	if p.Jobs > 0 {
		jobs = p.Jobs
	}
	var wg sync.WaitGroup
	idx := make(chan int)
	for w := 0; w < jobs; w++ {
		wg.Add(1)
		go func() {
			defer wg.Done()
			for i := range idx {
				outs[i] = execWithWatchdog(p, ctx, cs[i], 20*time.Minute)
			}
		}()
	}
	for i := range cs {
		idx <- i
	}
	close(idx)
	wg.Wait()
	ob, _ := json.Marshal(outs)
	if err := os.WriteFile(outPath, ob, 0o644); err != nil {
		return 2
	}
	return 0
}

func execCommand(name string, args ...string) *exec.Cmd { return exec.Command(name, args...) }
