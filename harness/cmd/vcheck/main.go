// vcheck: run / replay property checks. See DESIGN.md.
package main

import (
	"fmt"
	"os"
	"runtime/debug"
	"sort"
	"strconv"

	"github.com/consensys/gnark/logger"

	"verifharness/fw"
	"verifharness/props"
)

func usage() {
	fmt.Println("usage: vcheck run <ID> [quick|thorough] | vcheck replay <file> | vcheck list")
	os.Exit(2)
}

func seed() int64 {
	if s := os.Getenv("VERIF_SEED"); s != "" {
		if v, err := strconv.ParseInt(s, 10, 64); err == nil {
			return v
		}
	}
	return 1
}

func main() {
	debug.SetGCPercent(400)
	// The whole-circuit compiled systems are several GB each; with a relaxed GC percentage the
	// heap could outgrow the machine. A soft limit at half of the physical memory makes the
	// collector work harder instead (it never fails an allocation).
	if b, err := os.ReadFile("/proc/meminfo"); err == nil {
		var kb int64
		if _, err := fmt.Sscanf(string(b), "MemTotal: %d kB", &kb); err == nil && kb > 0 {
			debug.SetMemoryLimit(kb * 1024 / 2)
		}
	}
	logger.Disable()
	if len(os.Args) < 2 {
		usage()
	}
	switch os.Args[1] {
	case "list":
		ids := props.IDs()
		sort.Strings(ids)
		for _, id := range ids {
			fmt.Println(id)
		}
	case "run":
		if len(os.Args) < 3 {
			usage()
		}
		tier := "quick"
		if len(os.Args) > 3 {
			tier = os.Args[3]
		} else if t := os.Getenv("VERIF_TIER"); t != "" {
			tier = t
		}
		p := props.Get(os.Args[2])
		if p == nil {
			fmt.Println("unknown property", os.Args[2])
			os.Exit(2)
		}
		os.Exit(fw.Run(p, tier, seed()))
	case "racework":
		reps := 8
		if len(os.Args) > 2 {
			reps, _ = strconv.Atoi(os.Args[2])
		}
		if len(os.Args) > 3 && os.Args[3] == "readers" {
			props.RaceReaders(reps)
		} else if len(os.Args) > 3 && os.Args[3] == "solver" {
			props.RaceSolver(reps)
		} else {
			props.RaceWorkload(reps)
		}
	case "child":
		if len(os.Args) < 7 {
			usage()
		}
		p := props.Get(os.Args[2])
		if p == nil {
			os.Exit(2)
		}
		s, _ := strconv.ParseInt(os.Args[4], 10, 64)
		os.Exit(fw.Child(p, os.Args[3], s, os.Args[5], os.Args[6]))
	case "replay":
		if len(os.Args) < 3 {
			usage()
		}
		b, err := os.ReadFile(os.Args[2])
		if err != nil {
			fmt.Println(err)
			os.Exit(2)
		}
		id := extractProp(b)
		p := props.Get(id)
		if p == nil {
			fmt.Println("unknown property in replay file:", id)
			os.Exit(2)
		}
		os.Exit(fw.Replay(p, os.Args[2]))
	default:
		usage()
	}
}

func extractProp(b []byte) string {
	// tiny extraction to avoid a second struct: look for "property": "Cxx"
	s := string(b)
	const k = "\"property\": \""
	for i := 0; i+len(k) < len(s); i++ {
		if s[i:i+len(k)] == k {
			j := i + len(k)
			e := j
			for e < len(s) && s[e] != '"' {
				e++
			}
			return s[j:e]
		}
	}
	return ""
}
