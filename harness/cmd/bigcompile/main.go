// bigcompile: compile the whole verifier circuit (k-round restriction) with gnark's real
// R1CS builder and solve honest / tampered witnesses with the real solver (experiment).
package main

import (
	"fmt"
	"os"
	"runtime"
	"strconv"
	"time"

	"github.com/consensys/gnark-crypto/ecc"
	"github.com/consensys/gnark/frontend"
	"github.com/consensys/gnark/frontend/cs/r1cs"
	"github.com/consensys/gnark/frontend/cs/scs"
	"github.com/consensys/gnark/logger"

	"verifharness/gadget"
	"verifharness/inst"
)

func mem() string {
	var m runtime.MemStats
	runtime.ReadMemStats(&m)
	return fmt.Sprintf("heap=%dMB sys=%dMB", m.HeapAlloc>>20, m.Sys>>20)
}

func main() {
	logger.Disable()
	k := 1
	if len(os.Args) > 1 {
		k, _ = strconv.Atoi(os.Args[1])
	}
	in := inst.Load(inst.All()[0]).Restrict(k)
	t0 := time.Now()
	var nb frontend.NewBuilder = r1cs.NewBuilder
	if len(os.Args) > 2 && os.Args[2] == "scs" {
		nb = scs.NewBuilder
	}
	cs, err := frontend.Compile(ecc.BN254.ScalarField(), nb, in.Clone().VerifierCircuit())
	if err != nil {
		fmt.Println("compile error:", err)
		os.Exit(1)
	}
	fmt.Println("compiled", cs.GetNbConstraints(), "constraints in", time.Since(t0), mem())
	solve := func(name string, i *inst.Instance) {
		t := time.Now()
		w, err := frontend.NewWitness(i.VerifierCircuit(), ecc.BN254.ScalarField())
		if err != nil {
			fmt.Println(name, "witness error", err)
			return
		}
		err = cs.IsSolved(w, gadget.SolveOpts(cs)...)
		fmt.Println(name, "solved:", err == nil, time.Since(t), mem())
		if err != nil {
			s := err.Error()
			if len(s) > 200 {
				s = s[:200]
			}
			fmt.Println("   ", s)
		}
	}
	solve("honest", in.Clone())
	t := in.Clone()
	t.PWI.Proof.Openings.Wires[3][0].Limb = uint64(12345)
	solve("tampered-opening", t)
	t2 := in.Clone()
	t2.PWI.Proof.OpeningProof.QueryRoundProofs[0].Steps[0].Evals[3][1].Limb = uint64(777)
	solve("tampered-step-eval", t2)
}
