package main

import (
	"fmt"
	"os"
	"runtime/pprof"
	"time"

	"verifharness/engine"
	"verifharness/inst"
)

func main() {
	in := inst.Load(inst.All()[0])
	face := engine.Plain
	if len(os.Args) > 1 && os.Args[1] == "commit" {
		face = engine.Commit
	}
	if len(os.Args) > 1 && os.Args[1] == "native" {
		face = engine.Native
	}
	f, _ := os.Create("/tmp/cpu.prof")
	pprof.StartCPUProfile(f)
	t0 := time.Now()
	res := engine.Run(engine.Options{Face: face}, in.VerifierCircuit().Define)
	fmt.Println(res, time.Since(t0))
	pprof.StopCPUProfile()
}
