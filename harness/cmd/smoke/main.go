package main

import (
	"fmt"
	"time"

	"github.com/consensys/gnark/frontend"

	"verifharness/engine"
	"verifharness/inst"
	"verifharness/props"
)

func main() {
	in := inst.Load(inst.All()[0]).Restrict(1)
	t0 := time.Now()
	rep, results, err := props.ShadowFixpoint(engine.Native, func() frontend.Circuit { return in.Clone().VerifierCircuit() }, 8)
	fmt.Println(err, len(results), time.Since(t0))
	if rep != nil {
		for _, f := range rep.SortedFindings() {
			fmt.Println("FINDING", f.Kind, f.Site, f.Detail, rep.FindCount[f.Kind+"|"+f.Site])
		}
		fmt.Println("sites", len(rep.Sites), "eqsites", len(rep.EqSites))
		for k, s := range rep.Sites {
			fmt.Println(k, s.Count, s.MaxObsBits, s.AllowedBits, s.HonBits)
		}
	}
}
