package main

import (
	"fmt"

	"github.com/consensys/gnark/frontend"
	gl "github.com/wormhole-foundation/example-near-light-client/goldilocks"

	"verifharness/engine"
	"verifharness/harn"
)

func main() {
	known := map[int64]engine.U256{}
	for pass := 0; pass < 6; pass++ {
		cfg := &engine.ShadowCfg{Known: known, Final: pass == 5}
		res := harn.Run(engine.Options{Face: engine.Plain, Shadow: cfg, OnHint: func(ev *engine.HintEvent) {
			if pass == 5 {
				fmt.Println("hint", ev.Seq, ev.Name, len(ev.Outputs))
			}
		}}, func(api frontend.API) error {
			g := gl.New(api)
			g.Reduce(gl.NewVariable(uint64(1234567)))
			return nil
		})
		fmt.Println("pass", pass, res.Verdict, "changed", cfg.Report.Changed, "learned", len(cfg.Learned))
		for k, v := range cfg.Learned {
			known[k] = v
		}
		if pass == 5 {
			for k, v := range known {
				fmt.Println("key", (k&^(1<<62))>>6, k&63, v.BitLen())
			}
			for _, f := range cfg.Report.SortedFindings() {
				fmt.Println("FINDING", f.Kind, f.Site, f.Detail)
			}
		}
	}
}
