package main

import (
	"fmt"
	"time"

	"verifharness/inst"
	"verifharness/ref"
)

func main() {
	fmt.Println("selftest:", ref.SelfTest())
	var fs [][3]string
	for _, f := range inst.All() {
		fs = append(fs, [3]string{f.Proof, f.VD, f.Common})
	}
	t0 := time.Now()
	fmt.Println("proofs:", ref.SelfTestProofs(fs, 0), time.Since(t0))
}
