package ref

import "github.com/consensys/gnark-crypto/ecc/bn254/fr"

// MerkleFold hashes the leaf and folds it with the siblings by the low bits of index;
// returns the digest and the remaining (cap) index.
func MerkleFold(leaf []F, index uint64, siblings []fr.Element) (fr.Element, uint64) {
	cur := BNHashOrNoop(leaf)
	for _, s := range siblings {
		if index&1 == 1 {
			cur = BNTwoToOne(s, cur)
		} else {
			cur = BNTwoToOne(cur, s)
		}
		index >>= 1
	}
	return cur, index
}

// VerifyMerkle is verify_merkle_proof_to_cap.
func VerifyMerkle(leaf []F, index uint64, cap []fr.Element, siblings []fr.Element) bool {
	d, ci := MerkleFold(leaf, index, siblings)
	if ci >= uint64(len(cap)) {
		return false
	}
	return d.Equal(&cap[ci])
}

// MerkleTree builds a tree over leaves (len power of two) with the given cap height.
type MerkleTree struct {
	Leaves [][]F
	Layers [][]fr.Element // Layers[0] = leaf digests, ... up to the cap layer
	Cap    []fr.Element
}

func BuildMerkle(leaves [][]F, capHeight int) *MerkleTree {
	t := &MerkleTree{Leaves: leaves}
	cur := make([]fr.Element, len(leaves))
	for i := range leaves {
		cur[i] = BNHashOrNoop(leaves[i])
	}
	t.Layers = append(t.Layers, cur)
	for len(cur) > 1<<capHeight {
		nx := make([]fr.Element, len(cur)/2)
		for i := range nx {
			nx[i] = BNTwoToOne(cur[2*i], cur[2*i+1])
		}
		t.Layers = append(t.Layers, nx)
		cur = nx
	}
	t.Cap = cur
	return t
}

func (t *MerkleTree) Prove(index int) []fr.Element {
	var sib []fr.Element
	for l := 0; l < len(t.Layers)-1; l++ {
		sib = append(sib, t.Layers[l][index^1])
		index >>= 1
	}
	return sib
}
