package ref

import (
	"fmt"
	"math/rand"

	"github.com/consensys/gnark-crypto/ecc/bn254/fr"
)

// A small FRI prover for synthetic instances (arity 16, cap height 4): it commits random
// polynomials, opens them at extension points, runs the commit phase and can answer any
// query index. Used to drive the circuit's query-round verification on inputs whose
// correct verdict is known.

// ntt evaluates coeffs (len = n = 2^k) at w^0..w^(n-1), natural order.
func ntt(a []F, w F) []F {
	n := len(a)
	if n == 1 {
		return []F{a[0]}
	}
	even := make([]F, n/2)
	odd := make([]F, n/2)
	for i := 0; i < n/2; i++ {
		even[i] = a[2*i]
		odd[i] = a[2*i+1]
	}
	w2 := Mul(w, w)
	e, o := ntt(even, w2), ntt(odd, w2)
	out := make([]F, n)
	t := F(1)
	for i := 0; i < n/2; i++ {
		x := Mul(t, o[i])
		out[i] = Add(e[i], x)
		out[i+n/2] = Sub(e[i], x)
		t = Mul(t, w)
	}
	return out
}

func log2(n int) int {
	k := 0
	for 1<<k < n {
		k++
	}
	return k
}

type synthOracle struct {
	Polys  [][]F // coefficients
	Leaves [][]F // leaf i = values at x_i = g*w^rev(i)
	Tree   *MerkleTree
}

type FriSynth struct {
	Prm       FriParams
	Inst      FriInstance
	Oracles   []*synthOracle
	Openings  [][]E // per batch
	Alpha     E
	Betas     []E
	Reduced   []E
	layers    [][]E // layer k: values in bit-reversed order
	trees     []*MerkleTree
	FinalPoly []E
	Caps      [][]fr.Element // initial caps
}

func evalPolyE(c []F, x E) E {
	r := EZero
	for i := len(c) - 1; i >= 0; i-- {
		r = EAdd(EMul(r, x), EFrom(c[i]))
	}
	return r
}

// NewFriSynth builds an instance. polysPerOracle e.g. {3,5,2,4}; batch 0 opens every
// polynomial at z0, batch 1 opens the first second polynomials of oracle zOracle at z1.
func NewFriSynth(r *rand.Rand, prm FriParams, polysPerOracle []int, zOracle, second int) (*FriSynth, error) {
	s := &FriSynth{Prm: prm}
	d := prm.DegreeBits
	lde := prm.LdeBits()
	N := 1 << lde
	w := PrimitiveRoot(lde)
	for _, np := range polysPerOracle {
		o := &synthOracle{}
		vals := make([][]F, np)
		for k := 0; k < np; k++ {
			c := make([]F, 1<<d)
			for i := range c {
				c[i] = randF(r)
			}
			o.Polys = append(o.Polys, c)
			// evaluate on the coset g*<w>: scale coefficients by g^i, pad, NTT
			sc := make([]F, N)
			gp := F(1)
			for i := range c {
				sc[i] = Mul(c[i], gp)
				gp = Mul(gp, MultGen)
			}
			vals[k] = ntt(sc, w)
		}
		o.Leaves = make([][]F, N)
		for i := 0; i < N; i++ {
			nat := int(ReverseBits(uint64(i), lde))
			leaf := make([]F, np)
			for k := 0; k < np; k++ {
				leaf[k] = vals[k][nat]
			}
			o.Leaves[i] = leaf
		}
		o.Tree = BuildMerkle(o.Leaves, prm.CapHeight)
		s.Oracles = append(s.Oracles, o)
		s.Caps = append(s.Caps, o.Tree.Cap)
	}
	z0, z1 := randEE(r), randEE(r)
	var all []PolyRef
	for oi, o := range s.Oracles {
		for k := range o.Polys {
			all = append(all, PolyRef{oi, k})
		}
	}
	var sec []PolyRef
	for k := 0; k < second; k++ {
		sec = append(sec, PolyRef{zOracle, k})
	}
	s.Inst = FriInstance{NumOracles: len(s.Oracles), Batches: []Batch{{z0, all}, {z1, sec}}}
	for _, b := range s.Inst.Batches {
		var vs []E
		for _, p := range b.Polys {
			vs = append(vs, evalPolyE(s.Oracles[p.Oracle].Polys[p.Index], b.Point))
		}
		s.Openings = append(s.Openings, vs)
	}
	s.Alpha = randEE(r)
	for _, vs := range s.Openings {
		s.Reduced = append(s.Reduced, ReduceWithPowers(vs, s.Alpha))
	}
	// combined values on the LDE domain (bit-reversed order)
	cur := make([]E, N)
	for i := 0; i < N; i++ {
		init := make([]EvalProof, len(s.Oracles))
		for oi, o := range s.Oracles {
			init[oi] = EvalProof{Leaf: o.Leaves[i]}
		}
		v, ok := CombineInitial(s.Inst, init, s.Alpha, SubgroupX(uint64(i), lde), s.Reduced)
		if !ok {
			return nil, fmt.Errorf("degenerate opening point")
		}
		cur[i] = v
	}
	s.layers = append(s.layers, cur)
	bitsLeft := lde
	for _, ab := range prm.ArityBits {
		arity := 1 << ab
		leaves := make([][]F, len(cur)/arity)
		for i := range leaves {
			leaf := make([]F, 0, 2*arity)
			for j := 0; j < arity; j++ {
				e := cur[i*arity+j]
				leaf = append(leaf, e[0], e[1])
			}
			leaves[i] = leaf
		}
		t := BuildMerkle(leaves, prm.CapHeight)
		s.trees = append(s.trees, t)
		beta := randEE(r)
		s.Betas = append(s.Betas, beta)
		// x of index i*arity in the current domain
		next := make([]E, len(cur)/arity)
		for i := range next {
			x := s.pointAt(len(s.layers)-1, uint64(i*arity), bitsLeft)
			next[i] = ComputeEvaluation(x, 0, ab, cur[i*arity:(i+1)*arity], beta)
		}
		cur = next
		bitsLeft -= ab
		s.layers = append(s.layers, cur)
	}
	// final polynomial: interpolate cur (bit-reversed, coset shift g^(2^totalArity))
	tot := lde - bitsLeft
	shift := MultGen
	for i := 0; i < tot; i++ {
		shift = Mul(shift, shift)
	}
	n := len(cur)
	wn := PrimitiveRoot(bitsLeft)
	winv := Inv(wn)
	var nat [2][]F
	nat[0] = make([]F, n)
	nat[1] = make([]F, n)
	for i := 0; i < n; i++ {
		j := int(ReverseBits(uint64(i), bitsLeft))
		nat[0][j] = cur[i][0]
		nat[1][j] = cur[i][1]
	}
	ninv := Inv(F(n))
	sinv := Inv(shift)
	coeffs := make([]E, n)
	for c := 0; c < 2; c++ {
		co := ntt(nat[c], winv)
		sp := F(1)
		for i := 0; i < n; i++ {
			v := Mul(Mul(co[i], ninv), sp)
			coeffs[i][c] = v
			sp = Mul(sp, sinv)
		}
	}
	fl := 1 << (d - tot)
	for i := fl; i < n; i++ {
		if !EIsZero(coeffs[i]) {
			return nil, fmt.Errorf("synthetic prover: folded codeword is not low degree (coefficient %d of %d non-zero)", i, n)
		}
	}
	s.FinalPoly = coeffs[:fl]
	return s, nil
}

// pointAt: the domain point of index idx in layer k (domain of size 2^bits).
func (s *FriSynth) pointAt(layer int, idx uint64, bits int) F {
	lde := s.Prm.LdeBits()
	tot := lde - bits
	// x = (g * w^rev(idx'))^(2^tot) where idx' is any index of layer 0 above idx; equivalently
	// g^(2^tot) * (w^(2^tot))^rev(idx)
	shift := MultGen
	for i := 0; i < tot; i++ {
		shift = Mul(shift, shift)
	}
	return Mul(shift, Exp(PrimitiveRoot(bits), ReverseBits(idx, bits)))
}

// Query answers a query index (low lde bits of raw are used).
func (s *FriSynth) Query(raw uint64) QueryRound {
	lde := s.Prm.LdeBits()
	idx := raw % (1 << uint(lde))
	var q QueryRound
	for _, o := range s.Oracles {
		q.Initial = append(q.Initial, EvalProof{Leaf: append([]F(nil), o.Leaves[idx]...), Siblings: o.Tree.Prove(int(idx))})
	}
	for k, ab := range s.Prm.ArityBits {
		coset := idx >> uint(ab)
		arity := uint64(1) << uint(ab)
		ev := append([]E(nil), s.layers[k][coset*arity:(coset+1)*arity]...)
		q.Steps = append(q.Steps, QueryStep{Evals: ev, Siblings: s.trees[k].Prove(int(coset))})
		idx = coset
	}
	return q
}

func (s *FriSynth) CommitCaps() [][]fr.Element {
	var o [][]fr.Element
	for _, t := range s.trees {
		o = append(o, t.Cap)
	}
	return o
}

// Verify checks one round with the reference verifier.
func (s *FriSynth) Verify(raw uint64, q *QueryRound, alpha E, betas []E, reduced []E, finalPoly []E, caps, commitCaps [][]fr.Element) error {
	return VerifyFriRound(s.Inst, s.Prm, alpha, betas, reduced, caps, commitCaps, finalPoly, raw, q)
}
