package ref

// Naive Poseidon over Goldilocks (width 12, 8 full + 22 partial rounds, x^7), written
// from the Poseidon specification: every round adds the full round-constant vector and
// applies the full MDS matrix, so none of plonky2's "fast partial round" tables are used.

const (
	SpongeWidth   = 12
	SpongeRate    = 8
	HalfFullRound = 4
	PartialRounds = 22
)

type State [SpongeWidth]F

func sbox(x F) F {
	x2 := Mul(x, x)
	x4 := Mul(x2, x2)
	x3 := Mul(x2, x)
	return Mul(x4, x3)
}

func mdsRow(r int, v *State) F {
	res := F(0)
	for i := 0; i < SpongeWidth; i++ {
		res = Add(res, Mul(v[(i+r)%SpongeWidth], glMdsCirc[i]))
	}
	return Add(res, Mul(v[r], glMdsDiag[r]))
}

func mdsLayer(s *State) State {
	var out State
	for r := 0; r < SpongeWidth; r++ {
		out[r] = mdsRow(r, s)
	}
	return out
}

// Poseidon is the permutation.
func Poseidon(in State) State {
	s := in
	rc := 0
	full := func() {
		for i := 0; i < SpongeWidth; i++ {
			s[i] = sbox(Add(s[i], glRoundConstants[rc*SpongeWidth+i]))
		}
		s = mdsLayer(&s)
		rc++
	}
	for r := 0; r < HalfFullRound; r++ {
		full()
	}
	for r := 0; r < PartialRounds; r++ {
		for i := 0; i < SpongeWidth; i++ {
			s[i] = Add(s[i], glRoundConstants[rc*SpongeWidth+i])
		}
		s[0] = sbox(s[0])
		s = mdsLayer(&s)
		rc++
	}
	for r := 0; r < HalfFullRound; r++ {
		full()
	}
	return s
}

// HashNToMNoPad is plonky2's overwrite-mode sponge without padding.
func HashNToMNoPad(in []F, n int) []F {
	var s State
	for i := 0; i < len(in); i += SpongeRate {
		for j := 0; j < SpongeRate && i+j < len(in); j++ {
			s[j] = in[i+j]
		}
		s = Poseidon(s)
	}
	var out []F
	for {
		for i := 0; i < SpongeRate; i++ {
			out = append(out, s[i])
			if len(out) == n {
				return out
			}
		}
		s = Poseidon(s)
	}
}

type HashOut [4]F

func HashNoPad(in []F) HashOut {
	o := HashNToMNoPad(in, 4)
	return HashOut{o[0], o[1], o[2], o[3]}
}

// RoundConstant returns the i-th Goldilocks Poseidon round constant (0 <= i < 360).
func RoundConstant(i int) F { return glRoundConstants[i] }
