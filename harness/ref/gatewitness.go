package ref

import "math/rand"

// Honest rows: wire assignments that satisfy a gate (all constraint polynomials vanish).

func randF(r *rand.Rand) F {
	for {
		v := r.Uint64()
		if v < P {
			return v
		}
	}
}
func randEE(r *rand.Rand) E { return E{randF(r), randF(r)} }
func randAA(r *rand.Rand) A { return A{randEE(r), randEE(r)} }

func setAlg(w []E, start int, a A) { w[start], w[start+1] = a[0], a[1] }

// HonestRow fills wires (and uses the given constants / hash) so that gate g is satisfied.
// nWires must be large enough for the gate. Returns false if not supported.
func HonestRow(g GateSpec, r *rand.Rand, consts []E, pih HashOut, nWires int) ([]E, bool) {
	w := make([]E, nWires)
	for i := range w {
		w[i] = randEE(r)
	}
	switch g.Type {
	case "Noop":
	case "Arithmetic":
		for i := 0; i < int(g.Params["num_ops"]); i++ {
			w[4*i+3] = EAdd(EMul(EMul(w[4*i], w[4*i+1]), consts[0]), EMul(w[4*i+2], consts[1]))
		}
	case "ArithmeticExtension":
		for i := 0; i < int(g.Params["num_ops"]); i++ {
			b := 4 * D * i
			m0, m1, ad := A{w[b], w[b+1]}, A{w[b+2], w[b+3]}, A{w[b+4], w[b+5]}
			setAlg(w, b+3*D, AAdd(AScalar(consts[0], AMul(m0, m1)), AScalar(consts[1], ad)))
		}
	case "MulExtension":
		for i := 0; i < int(g.Params["num_ops"]); i++ {
			b := 3 * D * i
			setAlg(w, b+2*D, AScalar(consts[0], AMul(A{w[b], w[b+1]}, A{w[b+2], w[b+3]})))
		}
	case "BaseSum":
		n, base := int(g.Params["num_limbs"]), g.Params["base"]
		limbs := make([]E, n)
		for i := range limbs {
			limbs[i] = EFrom(F(r.Intn(int(base))))
			w[1+i] = limbs[i]
		}
		w[0] = ReduceWithPowers(limbs, EFrom(F(base)))
	case "Constant":
		for i := 0; i < int(g.Params["num_consts"]); i++ {
			w[i] = consts[i]
		}
	case "PublicInput":
		for i := 0; i < 4; i++ {
			w[i] = EFrom(pih[i])
		}
	case "Exponentiation":
		n := int(g.Params["num_power_bits"])
		base := w[0]
		bits := make([]E, n)
		for i := range bits {
			bits[i] = EFrom(F(r.Intn(2)))
			w[1+i] = bits[i]
		}
		prev := EOne
		for i := 0; i < n; i++ {
			if i > 0 {
				prev = EMul(w[2+n+i-1], w[2+n+i-1])
			}
			cur := bits[n-i-1]
			w[2+n+i] = EMul(prev, EAdd(EMul(cur, base), ESub(EOne, cur)))
		}
		w[1+n] = w[2+n+n-1]
	case "RandomAccess":
		bitsN, copies, extra := int(g.Params["bits"]), int(g.Params["num_copies"]), int(g.Params["num_extra_constants"])
		vec := 1 << bitsN
		routed := (2+vec)*copies + extra
		for c := 0; c < copies; c++ {
			idx := r.Intn(vec)
			w[(2+vec)*c] = EFrom(F(idx))
			w[(2+vec)*c+1] = w[(2+vec)*c+2+idx]
			for i := 0; i < bitsN; i++ {
				w[routed+c*bitsN+i] = EFrom(F((idx >> uint(i)) & 1))
			}
		}
		for i := 0; i < extra; i++ {
			w[(2+vec)*copies+i] = consts[i]
		}
	case "Reducing":
		n := int(g.Params["num_coeffs"])
		alpha, acc := A{w[D], w[D+1]}, A{w[2*D], w[2*D+1]}
		startAccs := 3*D + n
		for i := 0; i < n; i++ {
			// coefficients are base-field... any extension value is accepted by the polynomial
			acc = AAdd(AMul(acc, alpha), AFrom(w[3*D+i]))
			if i == n-1 {
				setAlg(w, 0, acc)
			} else {
				setAlg(w, startAccs+D*i, acc)
			}
		}
	case "ReducingExtension":
		n := int(g.Params["num_coeffs"])
		alpha, acc := A{w[D], w[D+1]}, A{w[2*D], w[2*D+1]}
		startAccs := 3*D + n*D
		for i := 0; i < n; i++ {
			acc = AAdd(AMul(acc, alpha), A{w[3*D+D*i], w[3*D+D*i+1]})
			if i == n-1 {
				setAlg(w, 0, acc)
			} else {
				setAlg(w, startAccs+D*i, acc)
			}
		}
	case "PoseidonMds":
		var in [SpongeWidth]A
		for i := range in {
			in[i] = A{w[i*D], w[i*D+1]}
		}
		for rr := 0; rr < SpongeWidth; rr++ {
			res := AZero
			for i := 0; i < SpongeWidth; i++ {
				res = AAdd(res, AScalar(EFrom(glMdsCirc[i]), in[(i+rr)%SpongeWidth]))
			}
			res = AAdd(res, AScalar(EFrom(glMdsDiag[rr]), in[rr]))
			setAlg(w, (SpongeWidth+rr)*D, res)
		}
	case "Poseidon":
		poseidonHonest(w, r)
	case "CosetInterpolation":
		sb, deg := int(g.Params["subgroup_bits"]), int(g.Params["degree"])
		np := 1 << sb
		startEvalPoint := 1 + np*D
		startEvalValue := startEvalPoint + D
		startInter := startEvalValue + D
		numInter := (np - 2) / (deg - 1)
		shift := w[0]
		shifted := randAA(r)
		setAlg(w, startInter+D*2*numInter, shifted)
		setAlg(w, startEvalPoint, AScalar(shift, shifted))
		domain := TwoAdicSubgroup(sb)
		values := make([]A, np)
		for i := range values {
			values[i] = A{w[1+i*D], w[1+i*D+1]}
		}
		ce, cp := partialInterpolate(domain[:deg], values[:deg], g.Weights[:deg], shifted, AZero, AOne)
		for i := 0; i < numInter; i++ {
			setAlg(w, startInter+D*i, ce)
			setAlg(w, startInter+D*(numInter+i), cp)
			s := 1 + (deg-1)*(i+1)
			e := s + deg - 1
			if e > np {
				e = np
			}
			ce, cp = partialInterpolate(domain[s:e], values[s:e], g.Weights[s:e], shifted, ce, cp)
		}
		setAlg(w, startEvalValue, ce)
	default:
		return nil, false
	}
	return w, true
}

func poseidonHonest(w []E, r *rand.Rand) {
	const W = SpongeWidth
	wireSwap := 2 * W
	startDelta := 2*W + 1
	startFull0 := startDelta + 4
	startPartial := startFull0 + W*(HalfFullRound-1)
	startFull1 := startPartial + PartialRounds
	swap := EFrom(F(r.Intn(2)))
	w[wireSwap] = swap
	var st [W]E
	for i := 0; i < 4; i++ {
		delta := EMul(swap, ESub(w[i+4], w[i]))
		w[startDelta+i] = delta
		st[i] = EAdd(w[i], delta)
		st[i+4] = ESub(w[i+4], delta)
	}
	for i := 8; i < W; i++ {
		st[i] = w[i]
	}
	rc := 0
	constLayer := func() {
		for i := 0; i < W; i++ {
			st[i] = EAdd(st[i], EFrom(glRoundConstants[rc*W+i]))
		}
	}
	for rr := 0; rr < HalfFullRound; rr++ {
		constLayer()
		if rr != 0 {
			for i := 0; i < W; i++ {
				w[startFull0+W*(rr-1)+i] = st[i]
			}
		}
		for i := 0; i < W; i++ {
			st[i] = eSbox(st[i])
		}
		st = eMds(&st)
		rc++
	}
	for rr := 0; rr < PartialRounds; rr++ {
		constLayer()
		w[startPartial+rr] = st[0]
		st[0] = eSbox(st[0])
		st = eMds(&st)
		rc++
	}
	for rr := 0; rr < HalfFullRound; rr++ {
		constLayer()
		for i := 0; i < W; i++ {
			w[startFull1+W*rr+i] = st[i]
		}
		for i := 0; i < W; i++ {
			st[i] = eSbox(st[i])
		}
		st = eMds(&st)
		rc++
	}
	for i := 0; i < W; i++ {
		w[W+i] = st[i]
	}
}

// BarycentricWeights of the points xs (1 / prod_{j != i} (x_i - x_j)).
func BarycentricWeights(xs []F) []F {
	out := make([]F, len(xs))
	for i := range xs {
		p := F(1)
		for j := range xs {
			if i != j {
				p = Mul(p, Sub(xs[i], xs[j]))
			}
		}
		out[i] = Inv(p)
	}
	return out
}
