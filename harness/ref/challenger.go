package ref

import "github.com/consensys/gnark-crypto/ecc/bn254/fr"

// Challenger is plonky2's duplex-sponge challenger.
type Challenger struct {
	state State
	in    []F
	out   []F
}

func NewChallenger() *Challenger { return &Challenger{} }

func (c *Challenger) ObserveElement(e F) {
	c.out = c.out[:0]
	c.in = append(c.in, e)
	if len(c.in) == SpongeRate {
		c.duplex()
	}
}

func (c *Challenger) ObserveElements(es []F) {
	for _, e := range es {
		c.ObserveElement(e)
	}
}

func (c *Challenger) ObserveHash(h HashOut)      { c.ObserveElements(h[:]) }
func (c *Challenger) ObserveBNHash(h fr.Element) { c.ObserveElements(BNToVec(h)) }
func (c *Challenger) ObserveExt(e E)             { c.ObserveElements(e[:]) }
func (c *Challenger) ObserveCap(cap []fr.Element) {
	for _, h := range cap {
		c.ObserveBNHash(h)
	}
}
func (c *Challenger) ObserveExts(es []E) {
	for _, e := range es {
		c.ObserveExt(e)
	}
}

func (c *Challenger) duplex() {
	for i, e := range c.in {
		c.state[i] = e
	}
	c.in = c.in[:0]
	c.state = Poseidon(c.state)
	c.out = append(c.out[:0], c.state[:SpongeRate]...)
}

func (c *Challenger) GetChallenge() F {
	if len(c.in) != 0 || len(c.out) == 0 {
		c.duplex()
	}
	v := c.out[len(c.out)-1]
	c.out = c.out[:len(c.out)-1]
	return v
}

func (c *Challenger) GetN(n int) []F {
	o := make([]F, n)
	for i := range o {
		o[i] = c.GetChallenge()
	}
	return o
}

func (c *Challenger) GetExt() E {
	v := c.GetN(2)
	return E{v[0], v[1]}
}

func (c *Challenger) GetHash() HashOut {
	v := c.GetN(4)
	return HashOut{v[0], v[1], v[2], v[3]}
}
