package ref

import (
	"fmt"
	"math/bits"

	"github.com/consensys/gnark-crypto/ecc/bn254/fr"
)

// Challenges of one proof.
type Challenges struct {
	Betas, Gammas, Alphas []F
	Zeta                  E
	FriAlpha              E
	FriBetas              []E
	PowResponse           F
	QueryIndicesRaw       []F // the raw challenge values (before reduction mod lde size)
}

// GetChallenges replays plonky2's transcript.
func GetChallenges(p *Proof, vd *VerifierData, c *Common) (*Challenges, HashOut) {
	pih := HashNoPad(p.PublicInputs)
	ch := NewChallenger()
	ch.ObserveBNHash(vd.CircuitDigest)
	ch.ObserveHash(pih)
	ch.ObserveCap(p.WiresCap)
	r := &Challenges{}
	r.Betas = ch.GetN(c.NumChallenges)
	r.Gammas = ch.GetN(c.NumChallenges)
	ch.ObserveCap(p.ZsCap)
	r.Alphas = ch.GetN(c.NumChallenges)
	ch.ObserveCap(p.QuotientCap)
	r.Zeta = ch.GetExt()
	o := &p.Openings
	for _, l := range [][]E{o.Constants, o.PlonkSigmas, o.Wires, o.PlonkZs, o.PartialProducts, o.QuotientPolys} {
		ch.ObserveExts(l)
	}
	ch.ObserveExts(o.PlonkZsNext)
	r.FriAlpha = ch.GetExt()
	for _, cap := range p.Fri.CommitCaps {
		ch.ObserveCap(cap)
		r.FriBetas = append(r.FriBetas, ch.GetExt())
	}
	ch.ObserveExts(p.Fri.FinalPoly)
	ch.ObserveElement(p.Fri.PowWitness)
	r.PowResponse = ch.GetChallenge()
	r.QueryIndicesRaw = ch.GetN(c.FriConfig.NumQueryRounds)
	return r, pih
}

func parseGates(c *Common) ([]GateSpec, error) {
	gs := make([]GateSpec, len(c.GateIDs))
	for i, id := range c.GateIDs {
		g, ok := ParseGateID(id)
		if !ok {
			return nil, fmt.Errorf("unsupported gate %q", id)
		}
		gs[i] = g
	}
	return gs, nil
}

// EvalL0 = (x^n - 1) / (n (x - 1)); 1 at x = 1.
func EvalL0(degreeBits int, x, xPowN E) E {
	if x == EOne {
		return EOne
	}
	n := F(1) << uint(degreeBits)
	return EDiv(ESub(xPowN, EOne), ESub(EScalar(x, n), EFrom(n)))
}

// VanishingPolyParams: the shape data evalVanishing needs.
type PlonkShape struct {
	NumChallenges, NumRoutedWires, QuotientDegreeFactor, NumPartialProducts, DegreeBits int
	KIs                                                                                 []F
}

// EvalVanishingPoly is plonky2's eval_vanishing_poly at zeta.
func EvalVanishingPoly(sh PlonkShape, constraintTerms []E, zeta, zetaPowN E, o *OpeningSet, betas, gammas, alphas []F) []E {
	l0 := EvalL0(sh.DegreeBits, zeta, zetaPowN)
	var z1, pp []E
	for i := 0; i < sh.NumChallenges; i++ {
		zx, zgx := o.PlonkZs[i], o.PlonkZsNext[i]
		z1 = append(z1, EMul(l0, ESub(zx, EOne)))
		nums := make([]E, sh.NumRoutedWires)
		dens := make([]E, sh.NumRoutedWires)
		for j := 0; j < sh.NumRoutedWires; j++ {
			w := o.Wires[j]
			sid := EScalar(zeta, sh.KIs[j])
			nums[j] = EAdd(EAdd(w, EScalar(sid, betas[i])), EFrom(gammas[i]))
			dens[j] = EAdd(EAdd(w, EScalar(o.PlonkSigmas[j], betas[i])), EFrom(gammas[i]))
		}
		accs := []E{zx}
		accs = append(accs, o.PartialProducts[i*sh.NumPartialProducts:(i+1)*sh.NumPartialProducts]...)
		accs = append(accs, zgx)
		md := sh.QuotientDegreeFactor
		k := 0
		for s := 0; s < len(nums); s += md {
			e := s + md
			if e > len(nums) {
				e = len(nums)
			}
			np, dp := EOne, EOne
			for j := s; j < e; j++ {
				np = EMul(np, nums[j])
				dp = EMul(dp, dens[j])
			}
			if k+1 >= len(accs) {
				break // izip stops at the shortest iterator
			}
			pp = append(pp, ESub(EMul(accs[k], np), EMul(accs[k+1], dp)))
			k++
		}
	}
	terms := append(append(z1, pp...), constraintTerms...)
	out := make([]E, len(alphas))
	for i, a := range alphas {
		out[i] = ReduceWithPowers(terms, EFrom(a))
	}
	return out
}

// PlonkCheck: vanishing(zeta) == Z_H(zeta) * t(zeta) for every challenge round.
func PlonkCheck(sh PlonkShape, vanishing []E, zetaPowN E, quotient []E) bool {
	zh := ESub(zetaPowN, EOne)
	for i := range vanishing {
		chunk := quotient[i*sh.QuotientDegreeFactor : (i+1)*sh.QuotientDegreeFactor]
		if vanishing[i] != EMul(zh, ReduceWithPowers(chunk, zetaPowN)) {
			return false
		}
	}
	return true
}

func ReverseBits(x uint64, n int) uint64 {
	if n == 0 {
		return 0
	}
	return bits.Reverse64(x) >> uint(64-n)
}

// SubgroupX = g * w^bitreverse(index).
func SubgroupX(index uint64, nLog int) F {
	return Mul(MultGen, Exp(PrimitiveRoot(nLog), ReverseBits(index, nLog)))
}

// ComputeEvaluation: interpolate the coset evaluations at beta (naive Lagrange).
func ComputeEvaluation(x F, idxInCoset uint64, arityBits int, evals []E, beta E) E {
	arity := 1 << arityBits
	g := PrimitiveRoot(arityBits)
	perm := make([]E, arity)
	for i := 0; i < arity; i++ {
		perm[ReverseBits(uint64(i), arityBits)] = evals[i]
	}
	rev := ReverseBits(idxInCoset, arityBits)
	start := Mul(x, Exp(g, uint64(arity)-rev))
	xs := make([]E, arity)
	cur := start
	for i := 0; i < arity; i++ {
		xs[i] = EFrom(cur)
		cur = Mul(cur, g)
	}
	return Lagrange(xs, perm, beta)
}

func Lagrange(xs, ys []E, x E) E {
	sum := EZero
	for i := range xs {
		num, den := EOne, EOne
		for j := range xs {
			if i == j {
				continue
			}
			num = EMul(num, ESub(x, xs[j]))
			den = EMul(den, ESub(xs[i], xs[j]))
		}
		sum = EAdd(sum, EMul(ys[i], EDiv(num, den)))
	}
	return sum
}

func PolyEval(coeffs []E, x E) E {
	r := EZero
	for i := len(coeffs) - 1; i >= 0; i-- {
		r = EAdd(EMul(r, x), coeffs[i])
	}
	return r
}

// PolyRef names one committed polynomial.
type PolyRef struct{ Oracle, Index int }

type Batch struct {
	Point E
	Polys []PolyRef
}

// FriInstance: which polynomials are opened where.
type FriInstance struct {
	NumOracles int
	Batches    []Batch
}

// FriParams: the FRI shape.
type FriParams struct {
	DegreeBits, RateBits, CapHeight, PowBits, NumQueryRounds int
	ArityBits                                                []int
}

func (p FriParams) LdeBits() int { return p.DegreeBits + p.RateBits }

// CombineInitial is fri_combine_initial. ok=false when a denominator vanishes.
func CombineInitial(inst FriInstance, initial []EvalProof, alpha E, x F, reduced []E) (E, bool) {
	sum := EZero
	xe := EFrom(x)
	for bi, b := range inst.Batches {
		evals := make([]E, len(b.Polys))
		for i, p := range b.Polys {
			evals[i] = EFrom(initial[p.Oracle].Leaf[p.Index])
		}
		red := ReduceWithPowers(evals, alpha)
		num := ESub(red, reduced[bi])
		den := ESub(xe, b.Point)
		if EIsZero(den) {
			return EZero, false
		}
		sum = EMul(sum, EExp(alpha, uint64(len(evals))))
		sum = EAdd(sum, EDiv(num, den))
	}
	return sum, true
}

type FriFailure struct {
	Round int
	What  string
}

func (f *FriFailure) Error() string { return fmt.Sprintf("fri round %d: %s", f.Round, f.What) }

// VerifyFriRound is fri_verifier_query_round for one raw index challenge.
func VerifyFriRound(inst FriInstance, prm FriParams, alpha E, betas []E, reduced []E, initialCaps [][]fr.Element, commitCaps [][]fr.Element, finalPoly []E, rawIndex F, r *QueryRound) error {
	n := prm.LdeBits()
	idx := rawIndex % (uint64(1) << uint(n))
	if len(r.Initial) != len(initialCaps) {
		return fmt.Errorf("initial proofs/caps mismatch")
	}
	for i := range initialCaps {
		if !VerifyMerkle(r.Initial[i].Leaf, idx, initialCaps[i], r.Initial[i].Siblings) {
			return fmt.Errorf("initial merkle proof %d", i)
		}
	}
	x := SubgroupX(idx, n)
	old, ok := CombineInitial(inst, r.Initial, alpha, x, reduced)
	if !ok {
		return fmt.Errorf("degenerate: domain point equals an opening point")
	}
	for i, ab := range prm.ArityBits {
		evals := r.Steps[i].Evals
		coset := idx >> uint(ab)
		within := idx & (uint64(1)<<uint(ab) - 1)
		if evals[within] != old {
			return fmt.Errorf("step %d: eval at own position differs from running value", i)
		}
		old = ComputeEvaluation(x, within, ab, evals, betas[i])
		flat := make([]F, 0, 2*len(evals))
		for _, e := range evals {
			flat = append(flat, e[0], e[1])
		}
		if !VerifyMerkle(flat, coset, commitCaps[i], r.Steps[i].Siblings) {
			return fmt.Errorf("step %d merkle proof", i)
		}
		for j := 0; j < ab; j++ {
			x = Mul(x, x)
		}
		idx = coset
	}
	if PolyEval(finalPoly, EFrom(x)) != old {
		return fmt.Errorf("final polynomial evaluation differs")
	}
	return nil
}

// PowOK: the response has at least powBits leading zeros as a 64-bit value.
func PowOK(resp F, powBits int) bool {
	return bits.LeadingZeros64(resp) >= powBits
}

func PlonkInstance(c *Common, zeta E) FriInstance {
	var all []PolyRef
	nPre := c.NumConstants + c.NumRoutedWires
	for i := 0; i < nPre; i++ {
		all = append(all, PolyRef{0, i})
	}
	for i := 0; i < c.NumWires; i++ {
		all = append(all, PolyRef{1, i})
	}
	nZs := c.NumChallenges * (1 + c.NumPartialProducts)
	for i := 0; i < nZs; i++ {
		all = append(all, PolyRef{2, i})
	}
	for i := 0; i < c.NumChallenges*c.QuotientDegreeFactor; i++ {
		all = append(all, PolyRef{3, i})
	}
	var zs []PolyRef
	for i := 0; i < c.NumChallenges; i++ {
		zs = append(zs, PolyRef{2, i})
	}
	g := PrimitiveRoot(c.DegreeBits)
	return FriInstance{NumOracles: 4, Batches: []Batch{{zeta, all}, {EScalar(zeta, g), zs}}}
}

// ValidateShape mirrors plonky2's validate_proof_with_pis_shape / validate_fri_proof_shape.
func ValidateShape(p *Proof, c *Common) error {
	capLen := 1 << c.FriParamsConfig.CapHeight
	if len(p.PublicInputs) != c.NumPublicInputs {
		return fmt.Errorf("public inputs length")
	}
	for _, cp := range [][]fr.Element{p.WiresCap, p.ZsCap, p.QuotientCap} {
		if len(cp) != capLen {
			return fmt.Errorf("cap length")
		}
	}
	o := &p.Openings
	if len(o.Constants) != c.NumConstants || len(o.PlonkSigmas) != c.NumRoutedWires || len(o.Wires) != c.NumWires ||
		len(o.PlonkZs) != c.NumChallenges || len(o.PlonkZsNext) != c.NumChallenges ||
		len(o.PartialProducts) != c.NumChallenges*c.NumPartialProducts || len(o.QuotientPolys) != c.NumChallenges*c.QuotientDegreeFactor {
		return fmt.Errorf("openings shape")
	}
	for _, cp := range p.Fri.CommitCaps {
		if len(cp) != capLen {
			return fmt.Errorf("commit cap length")
		}
	}
	if len(p.Fri.CommitCaps) != len(c.ReductionArityBits) {
		return fmt.Errorf("commit caps count")
	}
	lde := c.DegreeBits + c.FriParamsConfig.RateBits
	oracleSizes := []int{c.NumConstants + c.NumRoutedWires, c.NumWires, c.NumChallenges * (1 + c.NumPartialProducts), c.NumChallenges * c.QuotientDegreeFactor}
	for _, r := range p.Fri.Rounds {
		if len(r.Initial) != 4 {
			return fmt.Errorf("initial proofs count")
		}
		for i, ep := range r.Initial {
			if len(ep.Leaf) != oracleSizes[i] {
				return fmt.Errorf("leaf width")
			}
			if len(ep.Siblings)+c.FriParamsConfig.CapHeight != lde {
				return fmt.Errorf("initial merkle path length")
			}
		}
		if len(r.Steps) != len(c.ReductionArityBits) {
			return fmt.Errorf("steps count")
		}
		cw := lde
		for i, s := range r.Steps {
			ab := c.ReductionArityBits[i]
			cw -= ab
			if len(s.Evals) != 1<<ab {
				return fmt.Errorf("evals length")
			}
			if len(s.Siblings)+c.FriParamsConfig.CapHeight != cw {
				return fmt.Errorf("step merkle path length")
			}
		}
	}
	tot := 0
	for _, ab := range c.ReductionArityBits {
		tot += ab
	}
	if len(p.Fri.FinalPoly) != 1<<(c.DegreeBits-tot) {
		return fmt.Errorf("final poly length")
	}
	return nil
}

// Verify is the reference plonky2 verifier. nil = accept.
func Verify(p *Proof, vd *VerifierData, c *Common) (err error) {
	defer func() {
		if r := recover(); r != nil {
			err = fmt.Errorf("reference refused: %v", r)
		}
	}()
	if c.Hiding {
		return fmt.Errorf("hiding not supported")
	}
	if err := ValidateShape(p, c); err != nil {
		return err
	}
	gs, err := parseGates(c)
	if err != nil {
		return err
	}
	ch, pih := GetChallenges(p, vd, c)
	zetaPowN := EExpPow2(ch.Zeta, c.DegreeBits)
	vars := Vars{Constants: p.Openings.Constants, Wires: p.Openings.Wires, PIHash: pih}
	terms := EvaluateGateConstraints(gs, c.SelectorIndices, c.Groups, c.NumGateConstraints, vars)
	sh := PlonkShape{c.NumChallenges, c.NumRoutedWires, c.QuotientDegreeFactor, c.NumPartialProducts, c.DegreeBits, c.KIs}
	van := EvalVanishingPoly(sh, terms, ch.Zeta, zetaPowN, &p.Openings, ch.Betas, ch.Gammas, ch.Alphas)
	if !PlonkCheck(sh, van, zetaPowN, p.Openings.QuotientPolys) {
		return fmt.Errorf("plonk identity does not hold at zeta")
	}
	// FRI
	prm := FriParams{c.DegreeBits, c.FriParamsConfig.RateBits, c.FriParamsConfig.CapHeight, c.FriParamsConfig.PowBits, c.FriParamsConfig.NumQueryRounds, c.ReductionArityBits}
	if !PowOK(ch.PowResponse, prm.PowBits) {
		return fmt.Errorf("proof of work")
	}
	if prm.NumQueryRounds != len(p.Fri.Rounds) || len(ch.QueryIndicesRaw) != len(p.Fri.Rounds) {
		return fmt.Errorf("number of query rounds")
	}
	inst := PlonkInstance(c, ch.Zeta)
	o := &p.Openings
	var b0 []E
	for _, l := range [][]E{o.Constants, o.PlonkSigmas, o.Wires, o.PlonkZs, o.PartialProducts, o.QuotientPolys} {
		b0 = append(b0, l...)
	}
	reduced := []E{ReduceWithPowers(b0, ch.FriAlpha), ReduceWithPowers(o.PlonkZsNext, ch.FriAlpha)}
	caps := [][]fr.Element{vd.ConstantsSigmasCap, p.WiresCap, p.ZsCap, p.QuotientCap}
	for i := range p.Fri.Rounds {
		if e := VerifyFriRound(inst, prm, ch.FriAlpha, ch.FriBetas, reduced, caps, p.Fri.CommitCaps, p.Fri.FinalPoly, ch.QueryIndicesRaw[i], &p.Fri.Rounds[i]); e != nil {
			return &FriFailure{i, e.Error()}
		}
	}
	return nil
}
