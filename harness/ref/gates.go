package ref

import "fmt"

// Gate polynomials of plonky2 (extension degree D = 2), evaluated at an extension point.

const D = 2

type Vars struct {
	Constants []E // local constants (selectors already stripped for EvalUnfiltered)
	Wires     []E
	PIHash    HashOut
}

func (v Vars) alg(start int) A { return A{v.Wires[start], v.Wires[start+1]} }

func algToBase(a A) []E { return []E{a[0], a[1]} }

const UnusedSelector = uint64(^uint32(0))

// EvalUnfiltered evaluates one gate's constraint polynomials.
func EvalUnfiltered(g GateSpec, v Vars) []E {
	switch g.Type {
	case "Noop":
		return nil
	case "Arithmetic":
		var out []E
		c0, c1 := v.Constants[0], v.Constants[1]
		for i := 0; i < int(g.Params["num_ops"]); i++ {
			m0, m1, ad, o := v.Wires[4*i], v.Wires[4*i+1], v.Wires[4*i+2], v.Wires[4*i+3]
			comp := EAdd(EMul(EMul(m0, m1), c0), EMul(ad, c1))
			out = append(out, ESub(o, comp))
		}
		return out
	case "ArithmeticExtension":
		var out []E
		c0, c1 := v.Constants[0], v.Constants[1]
		for i := 0; i < int(g.Params["num_ops"]); i++ {
			b := 4 * D * i
			m0, m1, ad, o := v.alg(b), v.alg(b+D), v.alg(b+2*D), v.alg(b+3*D)
			comp := AAdd(AScalar(c0, AMul(m0, m1)), AScalar(c1, ad))
			out = append(out, algToBase(ASub(o, comp))...)
		}
		return out
	case "MulExtension":
		var out []E
		c0 := v.Constants[0]
		for i := 0; i < int(g.Params["num_ops"]); i++ {
			b := 3 * D * i
			m0, m1, o := v.alg(b), v.alg(b+D), v.alg(b+2*D)
			out = append(out, algToBase(ASub(o, AScalar(c0, AMul(m0, m1))))...)
		}
		return out
	case "BaseSum":
		n := int(g.Params["num_limbs"])
		base := g.Params["base"]
		sum := v.Wires[0]
		limbs := v.Wires[1 : 1+n]
		out := []E{ESub(ReduceWithPowers(limbs, EFrom(F(base))), sum)}
		for _, l := range limbs {
			acc := EOne
			for i := uint64(0); i < base; i++ {
				acc = EMul(acc, ESub(l, EFrom(F(i))))
			}
			out = append(out, acc)
		}
		return out
	case "Constant":
		var out []E
		for i := 0; i < int(g.Params["num_consts"]); i++ {
			out = append(out, ESub(v.Constants[i], v.Wires[i]))
		}
		return out
	case "PublicInput":
		var out []E
		for i := 0; i < 4; i++ {
			out = append(out, ESub(v.Wires[i], EFrom(v.PIHash[i])))
		}
		return out
	case "Exponentiation":
		n := int(g.Params["num_power_bits"])
		base := v.Wires[0]
		bit := func(i int) E { return v.Wires[1+i] }
		output := v.Wires[1+n]
		inter := func(i int) E { return v.Wires[2+n+i] }
		var out []E
		for i := 0; i < n; i++ {
			prev := EOne
			if i > 0 {
				prev = EMul(inter(i-1), inter(i-1))
			}
			cur := bit(n - i - 1)
			notCur := ESub(EOne, cur)
			comp := EMul(prev, EAdd(EMul(cur, base), notCur))
			out = append(out, ESub(comp, inter(i)))
		}
		out = append(out, ESub(output, inter(n-1)))
		return out
	case "RandomAccess":
		bitsN := int(g.Params["bits"])
		copies := int(g.Params["num_copies"])
		extra := int(g.Params["num_extra_constants"])
		vec := 1 << bitsN
		routed := (2+vec)*copies + extra
		var out []E
		for c := 0; c < copies; c++ {
			access := v.Wires[(2+vec)*c]
			claimed := v.Wires[(2+vec)*c+1]
			items := make([]E, vec)
			for i := range items {
				items[i] = v.Wires[(2+vec)*c+2+i]
			}
			bs := make([]E, bitsN)
			for i := range bs {
				bs[i] = v.Wires[routed+c*bitsN+i]
			}
			for _, b := range bs {
				out = append(out, EMul(b, ESub(b, EOne)))
			}
			rec := EZero
			for i := bitsN - 1; i >= 0; i-- {
				rec = EAdd(EAdd(rec, rec), bs[i])
			}
			out = append(out, ESub(rec, access))
			for _, b := range bs {
				nx := make([]E, len(items)/2)
				for i := range nx {
					x, y := items[2*i], items[2*i+1]
					nx[i] = EAdd(x, EMul(b, ESub(y, x)))
				}
				items = nx
			}
			out = append(out, ESub(items[0], claimed))
		}
		for i := 0; i < extra; i++ {
			out = append(out, ESub(v.Constants[i], v.Wires[(2+vec)*copies+i]))
		}
		return out
	case "Reducing":
		n := int(g.Params["num_coeffs"])
		alpha := v.alg(D)
		acc := v.alg(2 * D)
		startAccs := 3*D + n
		accs := func(i int) A {
			if i == n-1 {
				return v.alg(0)
			}
			return v.alg(startAccs + D*i)
		}
		var out []E
		for i := 0; i < n; i++ {
			coeff := AFrom(v.Wires[3*D+i])
			t := ASub(AAdd(AMul(acc, alpha), coeff), accs(i))
			out = append(out, algToBase(t)...)
			acc = accs(i)
		}
		return out
	case "ReducingExtension":
		n := int(g.Params["num_coeffs"])
		alpha := v.alg(D)
		acc := v.alg(2 * D)
		startAccs := 3*D + n*D
		accs := func(i int) A {
			if i == n-1 {
				return v.alg(0)
			}
			return v.alg(startAccs + D*i)
		}
		var out []E
		for i := 0; i < n; i++ {
			coeff := v.alg(3*D + D*i)
			t := ASub(AAdd(AMul(acc, alpha), coeff), accs(i))
			out = append(out, algToBase(t)...)
			acc = accs(i)
		}
		return out
	case "PoseidonMds":
		var in [SpongeWidth]A
		for i := range in {
			in[i] = v.alg(i * D)
		}
		var out []E
		for r := 0; r < SpongeWidth; r++ {
			res := AZero
			for i := 0; i < SpongeWidth; i++ {
				res = AAdd(res, AScalar(EFrom(glMdsCirc[i]), in[(i+r)%SpongeWidth]))
			}
			res = AAdd(res, AScalar(EFrom(glMdsDiag[r]), in[r]))
			o := v.alg((SpongeWidth + r) * D)
			out = append(out, algToBase(ASub(o, res))...)
		}
		return out
	case "Poseidon":
		return poseidonGate(v)
	case "CosetInterpolation":
		return cosetGate(g, v)
	}
	panic(fmt.Sprintf("ref: unknown gate type %q", g.Type))
}

func eSbox(x E) E {
	x2 := EMul(x, x)
	x4 := EMul(x2, x2)
	x3 := EMul(x2, x)
	return EMul(x4, x3)
}

func eMds(s *[SpongeWidth]E) [SpongeWidth]E {
	var out [SpongeWidth]E
	for r := 0; r < SpongeWidth; r++ {
		res := EZero
		for i := 0; i < SpongeWidth; i++ {
			res = EAdd(res, EScalar(s[(i+r)%SpongeWidth], glMdsCirc[i]))
		}
		out[r] = EAdd(res, EScalar(s[r], glMdsDiag[r]))
	}
	return out
}

// poseidonGate: the Poseidon gate with the *naive* round structure (full constant vector
// and full MDS in every partial round); the S-box inputs of the partial rounds are the
// same values in the naive and the optimised schedules.
func poseidonGate(v Vars) []E {
	const W = SpongeWidth
	wireSwap := 2 * W
	startDelta := 2*W + 1
	startFull0 := startDelta + 4
	startPartial := startFull0 + W*(HalfFullRound-1)
	startFull1 := startPartial + PartialRounds
	var out []E
	swap := v.Wires[wireSwap]
	out = append(out, EMul(swap, ESub(swap, EOne)))
	for i := 0; i < 4; i++ {
		lhs, rhs, delta := v.Wires[i], v.Wires[i+4], v.Wires[startDelta+i]
		out = append(out, ESub(EMul(swap, ESub(rhs, lhs)), delta))
	}
	var st [W]E
	for i := 0; i < 4; i++ {
		lhs, rhs, delta := v.Wires[i], v.Wires[i+4], v.Wires[startDelta+i]
		st[i] = EAdd(lhs, delta)
		st[i+4] = ESub(rhs, delta)
	}
	for i := 8; i < W; i++ {
		st[i] = v.Wires[i]
	}
	rc := 0
	constLayer := func() {
		for i := 0; i < W; i++ {
			st[i] = EAdd(st[i], EFrom(glRoundConstants[rc*W+i]))
		}
	}
	for r := 0; r < HalfFullRound; r++ {
		constLayer()
		if r != 0 {
			for i := 0; i < W; i++ {
				in := v.Wires[startFull0+W*(r-1)+i]
				out = append(out, ESub(st[i], in))
				st[i] = in
			}
		}
		for i := 0; i < W; i++ {
			st[i] = eSbox(st[i])
		}
		st = eMds(&st)
		rc++
	}
	for r := 0; r < PartialRounds; r++ {
		constLayer()
		in := v.Wires[startPartial+r]
		out = append(out, ESub(st[0], in))
		st[0] = eSbox(in)
		st = eMds(&st)
		rc++
	}
	for r := 0; r < HalfFullRound; r++ {
		constLayer()
		for i := 0; i < W; i++ {
			in := v.Wires[startFull1+W*r+i]
			out = append(out, ESub(st[i], in))
			st[i] = in
		}
		for i := 0; i < W; i++ {
			st[i] = eSbox(st[i])
		}
		st = eMds(&st)
		rc++
	}
	for i := 0; i < W; i++ {
		out = append(out, ESub(st[i], v.Wires[W+i]))
	}
	return out
}

func TwoAdicSubgroup(nLog int) []F {
	g := PrimitiveRoot(nLog)
	out := make([]F, 1<<nLog)
	out[0] = 1
	for i := 1; i < len(out); i++ {
		out[i] = Mul(out[i-1], g)
	}
	return out
}

func partialInterpolate(domain []F, values []A, weights []F, x, eval0, prod0 A) (A, A) {
	eval, prod := eval0, prod0
	for i := range domain {
		term := ASub(x, AFrom(EFrom(domain[i])))
		eval = AAdd(AMul(eval, term), AMul(AScalar(EFrom(weights[i]), values[i]), prod))
		prod = AMul(prod, term)
	}
	return eval, prod
}

func cosetGate(g GateSpec, v Vars) []E {
	sb := int(g.Params["subgroup_bits"])
	deg := int(g.Params["degree"])
	np := 1 << sb
	startValues := 1
	startEvalPoint := startValues + np*D
	startEvalValue := startEvalPoint + D
	startInter := startEvalValue + D
	numInter := (np - 2) / (deg - 1)
	shift := v.Wires[0]
	evalPoint := v.alg(startEvalPoint)
	shifted := v.alg(startInter + D*2*numInter)
	var out []E
	out = append(out, algToBase(ASub(evalPoint, AScalar(shift, shifted)))...)
	domain := TwoAdicSubgroup(sb)
	values := make([]A, np)
	for i := range values {
		values[i] = v.alg(startValues + i*D)
	}
	w := g.Weights
	ce, cp := partialInterpolate(domain[:deg], values[:deg], w[:deg], shifted, AZero, AOne)
	for i := 0; i < numInter; i++ {
		ie := v.alg(startInter + D*i)
		ip := v.alg(startInter + D*(numInter+i))
		out = append(out, algToBase(ASub(ie, ce))...)
		out = append(out, algToBase(ASub(ip, cp))...)
		s := 1 + (deg-1)*(i+1)
		e := s + deg - 1
		if e > np {
			e = np
		}
		ce, cp = partialInterpolate(domain[s:e], values[s:e], w[s:e], shifted, ie, ip)
	}
	ev := v.alg(startEvalValue)
	out = append(out, algToBase(ASub(ev, ce))...)
	return out
}

// ComputeFilter is plonky2's selector filter.
func ComputeFilter(row int, grp Group, s E, many bool) E {
	p := EOne
	for i := grp.Start; i < grp.End; i++ {
		if i == row {
			continue
		}
		p = EMul(p, ESub(EFrom(F(i)), s))
	}
	if many {
		p = EMul(p, ESub(EFrom(F(UnusedSelector)), s))
	}
	return p
}

// EvaluateGateConstraints: sum over gates of filter * constraints, position-wise.
func EvaluateGateConstraints(gates []GateSpec, selIdx []int, groups []Group, numConstraints int, v Vars) []E {
	out := make([]E, numConstraints)
	numSel := len(groups)
	for i, g := range gates {
		si := selIdx[i]
		filter := ComputeFilter(i, groups[si], v.Constants[si], numSel > 1)
		uv := Vars{Constants: v.Constants[numSel:], Wires: v.Wires, PIHash: v.PIHash}
		cs := EvalUnfiltered(g, uv)
		for j, c := range cs {
			if j >= numConstraints {
				panic("num_constraints too low")
			}
			out[j] = EAdd(out[j], EMul(filter, c))
		}
	}
	return out
}
