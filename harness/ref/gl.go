// Package ref is a native reference of the plonky2 verifier, written from the plonky2
// specification and independent of the repository's Go code. It is the oracle side of
// the monitors.
package ref

import (
	"math/big"
	"math/bits"
)

// P is the Goldilocks prime 2^64 - 2^32 + 1.
const P = uint64(0xFFFFFFFF00000001)

var BigP = new(big.Int).SetUint64(P)

// F is a canonical Goldilocks element.
type F = uint64

func Add(a, b F) F {
	s, c := bits.Add64(a, b, 0)
	if c != 0 || s >= P {
		s -= P
	}
	return s
}

func Sub(a, b F) F {
	if a >= b {
		return a - b
	}
	return a + (P - b)
}

func Neg(a F) F {
	if a == 0 {
		return 0
	}
	return P - a
}

func Mul(a, b F) F {
	hi, lo := bits.Mul64(a, b)
	_, r := bits.Div64(hi, lo, P) // a,b < P => hi < P
	return r
}

func Exp(a F, e uint64) F {
	r := F(1)
	for e > 0 {
		if e&1 == 1 {
			r = Mul(r, a)
		}
		a = Mul(a, a)
		e >>= 1
	}
	return r
}

func Inv(a F) F { return Exp(a, P-2) }

// Reduce maps an arbitrary uint64 into the field.
func Reduce64(a uint64) F {
	if a >= P {
		return a - P
	}
	return a
}

// ReduceBig maps a non-negative integer into the field.
func ReduceBig(b *big.Int) F {
	return new(big.Int).Mod(b, BigP).Uint64()
}

const MultGen = F(7)
const PowerOfTwoGen = F(1753635133440165772)
const TwoAdicity = 32

// PrimitiveRoot returns the primitive 2^nLog-th root of unity plonky2 uses.
func PrimitiveRoot(nLog int) F {
	r := PowerOfTwoGen
	for i := 0; i < TwoAdicity-nLog; i++ {
		r = Mul(r, r)
	}
	return r
}

// ---- quadratic extension GF(p^2) = F[X]/(X^2 - 7) ----

const W = F(7)

type E [2]F

var EZero = E{0, 0}
var EOne = E{1, 0}

func EFrom(a F) E { return E{a, 0} }

func EAdd(a, b E) E { return E{Add(a[0], b[0]), Add(a[1], b[1])} }
func ESub(a, b E) E { return E{Sub(a[0], b[0]), Sub(a[1], b[1])} }
func ENeg(a E) E    { return E{Neg(a[0]), Neg(a[1])} }
func EMul(a, b E) E {
	return E{
		Add(Mul(a[0], b[0]), Mul(W, Mul(a[1], b[1]))),
		Add(Mul(a[0], b[1]), Mul(a[1], b[0])),
	}
}
func EScalar(a E, s F) E { return E{Mul(a[0], s), Mul(a[1], s)} }
func EIsZero(a E) bool   { return a[0] == 0 && a[1] == 0 }

// EInv: 1/(a0 + a1 X) = (a0 - a1 X)/(a0^2 - 7 a1^2). Inverse of zero is zero.
func EInv(a E) E {
	n := Sub(Mul(a[0], a[0]), Mul(W, Mul(a[1], a[1])))
	ni := Inv(n)
	return E{Mul(a[0], ni), Mul(Neg(a[1]), ni)}
}

func EDiv(a, b E) E { return EMul(a, EInv(b)) }

func EExp(a E, e uint64) E {
	r := EOne
	for e > 0 {
		if e&1 == 1 {
			r = EMul(r, a)
		}
		a = EMul(a, a)
		e >>= 1
	}
	return r
}

func EExpPow2(a E, k int) E {
	for i := 0; i < k; i++ {
		a = EMul(a, a)
	}
	return a
}

// ReduceWithPowers computes sum terms[i] * alpha^i.
func ReduceWithPowers(terms []E, alpha E) E {
	s := EZero
	for i := len(terms) - 1; i >= 0; i-- {
		s = EAdd(EMul(s, alpha), terms[i])
	}
	return s
}

// ---- degree-2 algebra over E: A = E[Y]/(Y^2 - 7) (plonky2's ExtensionAlgebra) ----

type A [2]E

var AZero = A{EZero, EZero}
var AOne = A{EOne, EZero}

func AFrom(a E) A   { return A{a, EZero} }
func AAdd(a, b A) A { return A{EAdd(a[0], b[0]), EAdd(a[1], b[1])} }
func ASub(a, b A) A { return A{ESub(a[0], b[0]), ESub(a[1], b[1])} }
func AMul(a, b A) A {
	w := EFrom(W)
	return A{
		EAdd(EMul(a[0], b[0]), EMul(w, EMul(a[1], b[1]))),
		EAdd(EMul(a[0], b[1]), EMul(a[1], b[0])),
	}
}
func AScalar(s E, a A) A { return A{EMul(s, a[0]), EMul(s, a[1])} }
