package ref

import (
	"math/big"

	"github.com/consensys/gnark-crypto/ecc/bn254/fr"
)

// PoseidonBN128 (width 4, 8 full + 56 partial rounds, x^5), ported from
// crypto/plonky2_bn128/src/poseidon_bn128.rs with the constants of that crate.

var (
	bnCf [88]fr.Element
	bnSf [392]fr.Element
	bnMf [4][4]fr.Element
	bnPf [4][4]fr.Element
)

var RMod = fr.Modulus()

func init() {
	for i := range bnC {
		bnCf[i].SetString(bnC[i])
	}
	for i := range bnS {
		bnSf[i].SetString(bnS[i])
	}
	for i := 0; i < 4; i++ {
		for j := 0; j < 4; j++ {
			bnMf[i][j].SetString(bnM[i][j])
			bnPf[i][j].SetString(bnP[i][j])
		}
	}
}

type BNState [4]fr.Element

func bnExp5(x *fr.Element) {
	var a fr.Element
	a.Set(x)
	x.Square(x)
	x.Square(x)
	x.Mul(x, &a)
}

func bnArk(s *BNState, it int) {
	for i := 0; i < 4; i++ {
		s[i].Add(&s[i], &bnCf[it+i])
	}
}

func bnMix(s *BNState, m *[4][4]fr.Element) {
	var r BNState
	for i := 0; i < 4; i++ {
		for j := 0; j < 4; j++ {
			var t fr.Element
			t.Mul(&m[j][i], &s[j])
			r[i].Add(&r[i], &t)
		}
	}
	*s = r
}

func bnFull(s *BNState, first bool) {
	const full, partial, width = 8, 56, 4
	for i := 0; i < full/2-1; i++ {
		for k := 0; k < 4; k++ {
			bnExp5(&s[k])
		}
		if first {
			bnArk(s, (i+1)*width)
		} else {
			bnArk(s, (full/2+1)*width+partial+i*width)
		}
		bnMix(s, &bnMf)
	}
	for k := 0; k < 4; k++ {
		bnExp5(&s[k])
	}
	if first {
		bnArk(s, (full/2)*width)
		bnMix(s, &bnPf)
	} else {
		bnMix(s, &bnMf)
	}
}

func bnPartial(s *BNState) {
	const full, partial, width = 8, 56, 4
	for i := 0; i < partial; i++ {
		bnExp5(&s[0])
		s[0].Add(&s[0], &bnCf[(full/2+1)*width+i])
		var n0 fr.Element
		for j := 0; j < width; j++ {
			var t fr.Element
			t.Mul(&bnSf[(width*2-1)*i+j], &s[j])
			n0.Add(&n0, &t)
		}
		for k := 1; k < width; k++ {
			var t fr.Element
			t.Mul(&s[0], &bnSf[(width*2-1)*i+width+k-1])
			s[k].Add(&s[k], &t)
		}
		s[0] = n0
	}
}

// BNPermute is the PoseidonBN128 permutation.
func BNPermute(s BNState) BNState {
	bnArk(&s, 0)
	bnFull(&s, true)
	bnPartial(&s)
	bnFull(&s, false)
	return s
}

// packLE packs up to 3 canonical Goldilocks elements as consecutive little-endian 64-bit
// words of a BN254 element.
func packLE(els []F) fr.Element {
	b := new(big.Int)
	for k := len(els) - 1; k >= 0; k-- {
		b.Lsh(b, 64)
		b.Or(b, new(big.Int).SetUint64(els[k]))
	}
	var e fr.Element
	e.SetBigInt(b)
	return e
}

// BNHashNoPad: sponge over Goldilocks inputs, 3 elements per BN254 word, rate 3 words.
func BNHashNoPad(in []F) fr.Element {
	var s BNState
	for i := 0; i < len(in); i += 9 {
		end := i + 9
		if end > len(in) {
			end = len(in)
		}
		chunk := in[i:end]
		for j, w := 0, 0; j < len(chunk); j, w = j+3, w+1 {
			e := j + 3
			if e > len(chunk) {
				e = len(chunk)
			}
			s[w+1] = packLE(chunk[j:e])
		}
		s = BNPermute(s)
	}
	return s[0]
}

// BNHashOrNoop: inputs of at most 3 elements are packed, not hashed.
func BNHashOrNoop(in []F) fr.Element {
	if len(in) <= 3 {
		return packLE(in)
	}
	return BNHashNoPad(in)
}

func BNTwoToOne(l, r fr.Element) fr.Element {
	var s BNState
	s[2] = l
	s[3] = r
	s = BNPermute(s)
	return s[0]
}

// BNToVec splits the 32 little-endian bytes of a hash into 7-byte chunks (5 elements).
func BNToVec(h fr.Element) []F {
	var b big.Int
	h.BigInt(&b)
	mask := new(big.Int).SetUint64(1<<56 - 1)
	out := make([]F, 0, 5)
	for i := 0; i < 5; i++ {
		c := new(big.Int).And(new(big.Int).Rsh(&b, uint(56*i)), mask)
		out = append(out, c.Uint64())
	}
	return out
}

func FrFromString(s string) fr.Element {
	var e fr.Element
	b, ok := new(big.Int).SetString(s, 10)
	if !ok {
		panic("bad decimal " + s)
	}
	e.SetBigInt(b)
	return e
}
