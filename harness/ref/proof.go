package ref

import (
	"encoding/json"
	"fmt"
	"os"
	"regexp"
	"strconv"
	"strings"

	"github.com/consensys/gnark-crypto/ecc/bn254/fr"
)

// Native proof structures and the reference's own JSON readers.

type OpeningSet struct {
	Constants, PlonkSigmas, Wires, PlonkZs, PlonkZsNext, PartialProducts, QuotientPolys []E
}

type EvalProof struct {
	Leaf     []F
	Siblings []fr.Element
}

type QueryStep struct {
	Evals    []E
	Siblings []fr.Element
}

type QueryRound struct {
	Initial []EvalProof
	Steps   []QueryStep
}

type FriProof struct {
	CommitCaps [][]fr.Element
	Rounds     []QueryRound
	FinalPoly  []E
	PowWitness F
}

type Proof struct {
	WiresCap, ZsCap, QuotientCap []fr.Element
	Openings                     OpeningSet
	Fri                          FriProof
	PublicInputs                 []F
}

type VerifierData struct {
	ConstantsSigmasCap []fr.Element
	CircuitDigest      fr.Element
}

type FriConfig struct {
	RateBits, CapHeight, PowBits, NumQueryRounds int
}

type Group struct{ Start, End int }

type Common struct {
	NumWires, NumRoutedWires, NumConstantsCfg, NumChallenges int
	FriConfig                                                FriConfig // config.fri_config
	FriParamsConfig                                          FriConfig // fri_params.config
	Hiding                                                   bool
	DegreeBits                                               int
	ReductionArityBits                                       []int
	GateIDs                                                  []string
	SelectorIndices                                          []int
	Groups                                                   []Group
	QuotientDegreeFactor, NumGateConstraints, NumConstants   int
	NumPublicInputs                                          int
	KIs                                                      []F
	NumPartialProducts                                       int
}

func (c *Common) Clone() *Common {
	n := *c
	n.ReductionArityBits = append([]int(nil), c.ReductionArityBits...)
	n.GateIDs = append([]string(nil), c.GateIDs...)
	n.SelectorIndices = append([]int(nil), c.SelectorIndices...)
	n.Groups = append([]Group(nil), c.Groups...)
	n.KIs = append([]F(nil), c.KIs...)
	return &n
}

func ext(v []uint64) E {
	if len(v) != 2 {
		panic(fmt.Sprintf("extension element with %d coordinates", len(v)))
	}
	return E{v[0], v[1]}
}

func exts(v [][]uint64) []E {
	o := make([]E, len(v))
	for i := range v {
		o[i] = ext(v[i])
	}
	return o
}

func hashes(v []string) []fr.Element {
	o := make([]fr.Element, len(v))
	for i := range v {
		o[i] = FrFromString(v[i])
	}
	return o
}

type rawFriCfg struct {
	RateBits  int `json:"rate_bits"`
	CapHeight int `json:"cap_height"`
	PowBits   int `json:"proof_of_work_bits"`
	NumQuery  int `json:"num_query_rounds"`
}

func (r rawFriCfg) cfg() FriConfig {
	return FriConfig{RateBits: r.RateBits, CapHeight: r.CapHeight, PowBits: r.PowBits, NumQueryRounds: r.NumQuery}
}

func ReadCommon(path string) *Common {
	b, err := os.ReadFile(path)
	if err != nil {
		panic(err)
	}
	var raw struct {
		Config struct {
			NumWires       int       `json:"num_wires"`
			NumRoutedWires int       `json:"num_routed_wires"`
			NumConstants   int       `json:"num_constants"`
			NumChallenges  int       `json:"num_challenges"`
			FriConfig      rawFriCfg `json:"fri_config"`
		} `json:"config"`
		FriParams struct {
			Config     rawFriCfg `json:"config"`
			Hiding     bool      `json:"hiding"`
			DegreeBits int       `json:"degree_bits"`
			Arity      []int     `json:"reduction_arity_bits"`
		} `json:"fri_params"`
		Gates     []string `json:"gates"`
		Selectors struct {
			Indices []int `json:"selector_indices"`
			Groups  []struct {
				Start int `json:"start"`
				End   int `json:"end"`
			} `json:"groups"`
		} `json:"selectors_info"`
		QDF int      `json:"quotient_degree_factor"`
		NGC int      `json:"num_gate_constraints"`
		NC  int      `json:"num_constants"`
		NPI int      `json:"num_public_inputs"`
		KIs []uint64 `json:"k_is"`
		NPP int      `json:"num_partial_products"`
	}
	if err := json.Unmarshal(b, &raw); err != nil {
		panic(err)
	}
	c := &Common{
		NumWires: raw.Config.NumWires, NumRoutedWires: raw.Config.NumRoutedWires, NumConstantsCfg: raw.Config.NumConstants,
		NumChallenges: raw.Config.NumChallenges, FriConfig: raw.Config.FriConfig.cfg(), FriParamsConfig: raw.FriParams.Config.cfg(),
		Hiding: raw.FriParams.Hiding, DegreeBits: raw.FriParams.DegreeBits, ReductionArityBits: raw.FriParams.Arity,
		GateIDs: raw.Gates, SelectorIndices: raw.Selectors.Indices, QuotientDegreeFactor: raw.QDF, NumGateConstraints: raw.NGC,
		NumConstants: raw.NC, NumPublicInputs: raw.NPI, KIs: raw.KIs, NumPartialProducts: raw.NPP,
	}
	for _, g := range raw.Selectors.Groups {
		c.Groups = append(c.Groups, Group{g.Start, g.End})
	}
	return c
}

func ReadVerifierData(path string) *VerifierData {
	b, err := os.ReadFile(path)
	if err != nil {
		panic(err)
	}
	var raw struct {
		Cap    []string `json:"constants_sigmas_cap"`
		Digest string   `json:"circuit_digest"`
	}
	if err := json.Unmarshal(b, &raw); err != nil {
		panic(err)
	}
	return &VerifierData{ConstantsSigmasCap: hashes(raw.Cap), CircuitDigest: FrFromString(raw.Digest)}
}

func ReadProof(path string) *Proof {
	b, err := os.ReadFile(path)
	if err != nil {
		panic(err)
	}
	return ParseProof(b)
}

func ParseProof(b []byte) *Proof {
	type mp struct {
		Siblings []string `json:"siblings"`
	}
	var raw struct {
		Proof struct {
			WiresCap []string `json:"wires_cap"`
			ZsCap    []string `json:"plonk_zs_partial_products_cap"`
			QCap     []string `json:"quotient_polys_cap"`
			Openings struct {
				Constants       [][]uint64 `json:"constants"`
				PlonkSigmas     [][]uint64 `json:"plonk_sigmas"`
				Wires           [][]uint64 `json:"wires"`
				PlonkZs         [][]uint64 `json:"plonk_zs"`
				PlonkZsNext     [][]uint64 `json:"plonk_zs_next"`
				PartialProducts [][]uint64 `json:"partial_products"`
				QuotientPolys   [][]uint64 `json:"quotient_polys"`
			} `json:"openings"`
			OpeningProof struct {
				Caps   [][]string `json:"commit_phase_merkle_caps"`
				Rounds []struct {
					Initial struct {
						EvalsProofs [][2]json.RawMessage `json:"evals_proofs"`
					} `json:"initial_trees_proof"`
					Steps []struct {
						Evals [][]uint64 `json:"evals"`
						MP    mp         `json:"merkle_proof"`
					} `json:"steps"`
				} `json:"query_round_proofs"`
				FinalPoly struct {
					Coeffs [][]uint64 `json:"coeffs"`
				} `json:"final_poly"`
				Pow uint64 `json:"pow_witness"`
			} `json:"opening_proof"`
		} `json:"proof"`
		PublicInputs []uint64 `json:"public_inputs"`
	}
	if err := json.Unmarshal(b, &raw); err != nil {
		panic(err)
	}
	p := &Proof{WiresCap: hashes(raw.Proof.WiresCap), ZsCap: hashes(raw.Proof.ZsCap), QuotientCap: hashes(raw.Proof.QCap), PublicInputs: raw.PublicInputs}
	o := raw.Proof.Openings
	p.Openings = OpeningSet{exts(o.Constants), exts(o.PlonkSigmas), exts(o.Wires), exts(o.PlonkZs), exts(o.PlonkZsNext), exts(o.PartialProducts), exts(o.QuotientPolys)}
	op := raw.Proof.OpeningProof
	for _, c := range op.Caps {
		p.Fri.CommitCaps = append(p.Fri.CommitCaps, hashes(c))
	}
	for _, r := range op.Rounds {
		var qr QueryRound
		for _, ep := range r.Initial.EvalsProofs {
			var leaf []uint64
			var m mp
			if err := json.Unmarshal(ep[0], &leaf); err != nil {
				panic(err)
			}
			if err := json.Unmarshal(ep[1], &m); err != nil {
				panic(err)
			}
			qr.Initial = append(qr.Initial, EvalProof{Leaf: leaf, Siblings: hashes(m.Siblings)})
		}
		for _, s := range r.Steps {
			qr.Steps = append(qr.Steps, QueryStep{Evals: exts(s.Evals), Siblings: hashes(s.MP.Siblings)})
		}
		p.Fri.Rounds = append(p.Fri.Rounds, qr)
	}
	p.Fri.FinalPoly = exts(op.FinalPoly.Coeffs)
	p.Fri.PowWitness = op.Pow
	return p
}

// ---- gate identifiers ----

type GateSpec struct {
	Type    string // Arithmetic, ArithmeticExtension, BaseSum, Constant, CosetInterpolation, Exponentiation, MulExtension, Noop, Poseidon, PoseidonMds, PublicInput, RandomAccess, Reducing, ReducingExtension
	Params  map[string]uint64
	Weights []F
}

var (
	reNumOps   = regexp.MustCompile(`^(ArithmeticGate|ArithmeticExtensionGate|MulExtensionGate) \{ num_ops: ([0-9]+) \}$`)
	reBaseSum  = regexp.MustCompile(`^BaseSumGate \{ num_limbs: ([0-9]+) \} \+ Base: ([0-9]+)$`)
	reConst    = regexp.MustCompile(`^ConstantGate \{ num_consts: ([0-9]+) \}$`)
	reCoset    = regexp.MustCompile(`^CosetInterpolationGate \{ subgroup_bits: ([0-9]+), degree: ([0-9]+), barycentric_weights: \[([0-9, ]+)\], _phantom: PhantomData<plonky2_field::goldilocks_field::GoldilocksField> \}<D=2>$`)
	reExp      = regexp.MustCompile(`^ExponentiationGate \{ num_power_bits: ([0-9]+), _phantom: PhantomData<plonky2_field::goldilocks_field::GoldilocksField> \}<D=2>$`)
	reRandom   = regexp.MustCompile(`^RandomAccessGate \{ bits: ([0-9]+), num_copies: ([0-9]+), num_extra_constants: ([0-9]+), _phantom: PhantomData<plonky2_field::goldilocks_field::GoldilocksField> \}<D=2>$`)
	reReducing = regexp.MustCompile(`^(ReducingGate|ReducingExtensionGate) \{ num_coeffs: ([0-9]+) \}$`)
)

func atoi(s string) uint64 {
	v, err := strconv.ParseUint(s, 10, 64)
	if err != nil {
		panic("bad number " + s)
	}
	return v
}

// ParseGateID resolves a plonky2 gate Debug identifier; ok=false for gates outside the
// supported set (D=2 only).
func ParseGateID(id string) (GateSpec, bool) {
	if m := reNumOps.FindStringSubmatch(id); m != nil {
		return GateSpec{Type: strings.TrimSuffix(m[1], "Gate"), Params: map[string]uint64{"num_ops": atoi(m[2])}}, true
	}
	if m := reBaseSum.FindStringSubmatch(id); m != nil {
		return GateSpec{Type: "BaseSum", Params: map[string]uint64{"num_limbs": atoi(m[1]), "base": atoi(m[2])}}, true
	}
	if m := reConst.FindStringSubmatch(id); m != nil {
		return GateSpec{Type: "Constant", Params: map[string]uint64{"num_consts": atoi(m[1])}}, true
	}
	if m := reCoset.FindStringSubmatch(id); m != nil {
		var ws []F
		for _, s := range strings.Split(m[3], ",") {
			ws = append(ws, atoi(strings.TrimSpace(s)))
		}
		return GateSpec{Type: "CosetInterpolation", Params: map[string]uint64{"subgroup_bits": atoi(m[1]), "degree": atoi(m[2])}, Weights: ws}, true
	}
	if m := reExp.FindStringSubmatch(id); m != nil {
		return GateSpec{Type: "Exponentiation", Params: map[string]uint64{"num_power_bits": atoi(m[1])}}, true
	}
	if m := reRandom.FindStringSubmatch(id); m != nil {
		return GateSpec{Type: "RandomAccess", Params: map[string]uint64{"bits": atoi(m[1]), "num_copies": atoi(m[2]), "num_extra_constants": atoi(m[3])}}, true
	}
	if m := reReducing.FindStringSubmatch(id); m != nil {
		return GateSpec{Type: strings.TrimSuffix(m[1], "Gate"), Params: map[string]uint64{"num_coeffs": atoi(m[2])}}, true
	}
	switch id {
	case "NoopGate":
		return GateSpec{Type: "Noop"}, true
	case "PublicInputGate":
		return GateSpec{Type: "PublicInput"}, true
	case "PoseidonGate(PhantomData<plonky2_field::goldilocks_field::GoldilocksField>)<WIDTH=12>":
		return GateSpec{Type: "Poseidon"}, true
	case "PoseidonMdsGate(PhantomData<plonky2_field::goldilocks_field::GoldilocksField>)<WIDTH=12>":
		return GateSpec{Type: "PoseidonMds"}, true
	}
	return GateSpec{}, false
}
