package engine

import (
	"fmt"
	"math/big"
	"math/bits"
	"reflect"
	"runtime"
	"strings"
	"sync"

	"github.com/consensys/gnark-crypto/ecc/bn254/fr"
	"github.com/consensys/gnark/constraint/solver"
	"github.com/consensys/gnark/frontend"
)

const glP = uint64(0xFFFFFFFF00000001)

var bigP = new(big.Int).SetUint64(glP)

// HintEvent is what the monitors see of one NewHint call.
type HintEvent struct {
	Stack   [24]uintptr // return PCs of the call (for grouping identical call chains)
	Name    string      // MulAddHint, ReduceHint, InverseHint, SplitLimbsHint, nBits, ...
	Site    string      // static site: innermost repository frames
	Seq     uint64      // dynamic sequence number within the run
	Inputs  []*big.Int
	Honest  []*big.Int // nil when the honest hint function refused
	Refused bool
	RefMsg  string
	Outputs []*big.Int // what the circuit finally received
	Subst   bool
}

// HintPolicy is the hint adversary.
type HintPolicy interface {
	// NeedSite tells whether Site must be computed for every event.
	NeedSite() bool
	// Substitute may return replacement outputs for this call.
	Substitute(ev *HintEvent) ([]*big.Int, bool)
}

var hintNames sync.Map // uintptr -> string

func hintName(f solver.Hint) string {
	p := reflect.ValueOf(f).Pointer()
	if s, ok := hintNames.Load(p); ok {
		return s.(string)
	}
	n := runtime.FuncForPC(p).Name()
	if i := strings.LastIndex(n, "."); i >= 0 {
		n = n[i+1:]
	}
	hintNames.Store(p, n)
	return n
}

var rawToMont fr.Element // value 2^256 mod r

func init() {
	b := new(big.Int).Lsh(big.NewInt(1), 256)
	rawToMont.SetBigInt(b)
}

// fromWords builds the element whose canonical value has the given little-endian words
// (value must be < r).
func fromWords(w [4]uint64) fr.Element {
	z := fr.Element(w)
	z.Mul(&z, &rawToMont)
	return z
}

func (e *Engine) hintOut(x fr.Element, seq uint64, idx int) *V {
	v := &V{E: x}
	if e.sh != nil {
		v.S = e.sh.hintOutput(&v.E, seq, idx)
	}
	return v
}

// NewHint runs a hint under the configured policy.
func (e *Engine) NewHint(f solver.Hint, nbOutputs int, inputs ...frontend.Variable) ([]frontend.Variable, error) {
	if nbOutputs <= 0 {
		return nil, fmt.Errorf("hint function must return at least one output")
	}
	e.st.Hints++
	seq := e.hintSeq
	e.hintSeq++
	name := hintName(f)
	if !hintRegistered(f) {
		// a real prover's solver resolves hints by id in gnark's registry: an unregistered
		// hint means no witness can be computed for any input
		e.fail("hint_not_registered", "hint "+name+" is not registered with gnark's solver (solver.RegisterHint): a compiled circuit using it cannot be solved")
	}
	in := make([]*V, len(inputs))
	for i := range inputs {
		in[i] = e.val(inputs[i])
	}
	monitored := e.opt.Policy != nil || e.opt.OnHint != nil || e.sh != nil
	if !monitored && !e.optRealHints() {
		if out, ok := e.fastHint(name, in, seq, nbOutputs); ok {
			return out, nil
		}
	}
	ev := &HintEvent{Name: name, Seq: seq}
	ev.Inputs = make([]*big.Int, len(in))
	for i := range in {
		ev.Inputs[i] = in[i].Big()
	}
	needSite := e.opt.OnHint != nil || e.sh != nil || (e.opt.Policy != nil && e.opt.Policy.NeedSite())
	if needSite {
		ev.Site, ev.Stack = e.hintSite()
	}
	// honest execution
	honest := make([]*big.Int, nbOutputs)
	for i := range honest {
		honest[i] = new(big.Int)
	}
	inCopy := make([]*big.Int, len(ev.Inputs))
	for i := range inCopy {
		inCopy[i] = new(big.Int).Set(ev.Inputs[i])
	}
	if msg, ok := callHint(f, inCopy, honest); ok {
		for i := range honest {
			honest[i].Mod(honest[i], rMod)
		}
		ev.Honest = honest
		ev.Outputs = honest
	} else {
		ev.Refused = true
		ev.RefMsg = msg
		e.st.HintRefused++
		fb, ok := totalHint(name, ev.Inputs, nbOutputs)
		if !ok {
			// an unknown hint refusing: nothing to continue with
			e.fail("hint_error", name+": "+msg)
			fb = make([]*big.Int, nbOutputs)
			for i := range fb {
				fb[i] = new(big.Int)
			}
		}
		ev.Outputs = fb
	}
	if e.opt.Policy != nil {
		if outs, ok := e.opt.Policy.Substitute(ev); ok {
			if len(outs) != nbOutputs {
				panic("engine: policy returned wrong number of outputs")
			}
			ev.Outputs = outs
			ev.Subst = true
			e.st.HintSubst++
			if e.scope == nil {
				e.scope = trimToRepo(captureStack(2))
				e.scopePending = true
			}
		}
	}
	res := make([]frontend.Variable, nbOutputs)
	for i := range res {
		var x fr.Element
		x.SetBigInt(ev.Outputs[i])
		res[i] = e.hintOut(x, seq, i)
	}
	if e.sh != nil {
		e.sh.onHint(ev, in, res)
	}
	if e.opt.OnHint != nil {
		e.opt.OnHint(ev)
	}
	return res, nil
}

func (e *Engine) optRealHints() bool { return realHints }

var realHints = true

// SetRealHints(true) (the default) sends every hint through the repository's own hint
// function; SetRealHints(false) enables a native fast path for the four repository hints
// and gnark's bit decomposition, used by the large must-reject sweeps. Process-wide.
func SetRealHints(b bool) { realHints = b }

func callHint(f solver.Hint, in, out []*big.Int) (msg string, ok bool) {
	defer func() {
		if r := recover(); r != nil {
			msg = "panic: " + trunc(fmt.Sprint(r), 120)
			ok = false
		}
	}()
	if err := f(rMod, in, out); err != nil {
		return "error: " + trunc(err.Error(), 120), false
	}
	return "", true
}

// totalHint is a total re-implementation of the four repository hints, used only to
// continue an execution when the honest hint function refuses its operands.
func totalHint(name string, in []*big.Int, nb int) ([]*big.Int, bool) {
	switch name {
	case "MulAddHint":
		if len(in) != 3 || nb != 2 {
			return nil, false
		}
		s := new(big.Int).Mul(in[0], in[1])
		s.Add(s, in[2])
		s.Mod(s, rMod) // the constraint is over the BN254 field
		q, r := new(big.Int).QuoRem(s, bigP, new(big.Int))
		return []*big.Int{q, r}, true
	case "ReduceHint":
		if len(in) != 1 || nb != 2 {
			return nil, false
		}
		q, r := new(big.Int).QuoRem(in[0], bigP, new(big.Int))
		return []*big.Int{q, r}, true
	case "InverseHint":
		if len(in) != 1 || nb != 1 {
			return nil, false
		}
		x := new(big.Int).Mod(in[0], bigP)
		inv := new(big.Int).ModInverse(x, bigP)
		if inv == nil {
			inv = new(big.Int)
		}
		return []*big.Int{inv}, true
	case "SplitLimbsHint":
		if len(in) != 1 || nb != 2 {
			return nil, false
		}
		hi := new(big.Int).Rsh(in[0], 32)
		lo := new(big.Int).And(in[0], big.NewInt(0xFFFFFFFF))
		return []*big.Int{hi, lo}, true
	}
	return nil, false
}

// site cache: pc stack -> string
type pcKey [24]uintptr

var siteCache sync.Map

func (e *Engine) hintSite() (string, [24]uintptr) {
	var k pcKey
	runtime.Callers(3, k[:])
	if s, ok := siteCache.Load(k); ok {
		return s.(string), k
	}
	frames := runtime.CallersFrames(k[:])
	var parts []string
	for {
		fr, more := frames.Next()
		if strings.Contains(fr.Function, repoMarker) {
			parts = append(parts, shortFn(fr.Function))
			if len(parts) >= 3 {
				break
			}
		}
		if !more {
			break
		}
	}
	s := strings.Join(parts, "<")
	if s == "" {
		s = "(no repo frame)"
	}
	siteCache.Store(k, s)
	return s, k
}

var fastCheckCounter uint64

// fastHint computes the four repository hints natively for in-field operands.
func (e *Engine) fastHint(name string, in []*V, seq uint64, nbOut int) ([]frontend.Variable, bool) {
	switch name {
	case "MulAddHint":
		if len(in) != 3 {
			return nil, false
		}
		a, b, c := in[0].E.Bits(), in[1].E.Bits(), in[2].E.Bits()
		if !small(a) || !small(b) || !small(c) || a[0] >= glP || b[0] >= glP || c[0] >= glP {
			return nil, false
		}
		hi, lo := bits.Mul64(a[0], b[0])
		var carry uint64
		lo, carry = bits.Add64(lo, c[0], 0)
		hi += carry
		q, r := bits.Div64(hi, lo, glP)
		var qe, re fr.Element
		qe.SetUint64(q)
		re.SetUint64(r)
		return []frontend.Variable{&V{E: qe}, &V{E: re}}, true
	case "ReduceHint":
		if len(in) != 1 {
			return nil, false
		}
		w := in[0].E.Bits()
		var q [4]uint64
		var rem uint64
		for i := 3; i >= 0; i-- {
			q[i], rem = bits.Div64(rem, w[i], glP)
		}
		var re fr.Element
		re.SetUint64(rem)
		var qe fr.Element
		if q[1] == 0 && q[2] == 0 && q[3] == 0 {
			qe.SetUint64(q[0])
		} else {
			qe = fromWords(q)
		}
		return []frontend.Variable{&V{E: qe}, &V{E: re}}, true
	case "InverseHint":
		if len(in) != 1 {
			return nil, false
		}
		a := in[0].E.Bits()
		if !small(a) || a[0] >= glP {
			return nil, false
		}
		var re fr.Element
		re.SetUint64(glInv(a[0]))
		return []frontend.Variable{&V{E: re}}, true
	case "nBits", "NBits":
		if len(in) != 1 {
			return nil, false
		}
		w := in[0].E.Bits()
		out := make([]frontend.Variable, nbOut)
		for i := 0; i < nbOut; i++ {
			v := &V{}
			if i < 256 && (w[i/64]>>(uint(i)%64))&1 == 1 {
				v.E.SetOne()
			}
			out[i] = v
		}
		return out, true
	case "SplitLimbsHint":
		if len(in) != 1 {
			return nil, false
		}
		a := in[0].E.Bits()
		if !small(a) || a[0] >= glP {
			return nil, false
		}
		var hi, lo fr.Element
		hi.SetUint64(a[0] >> 32)
		lo.SetUint64(a[0] & 0xFFFFFFFF)
		return []frontend.Variable{&V{E: hi}, &V{E: lo}}, true
	}
	return nil, false
}

func small(w [4]uint64) bool { return w[1] == 0 && w[2] == 0 && w[3] == 0 }

func glMul(a, b uint64) uint64 {
	hi, lo := bits.Mul64(a, b)
	_, r := bits.Div64(hi%glP, lo, glP)
	return r
}

func glInv(a uint64) uint64 {
	if a == 0 {
		return 0
	}
	// a^(p-2)
	e := glP - 2
	res := uint64(1)
	base := a
	for e > 0 {
		if e&1 == 1 {
			res = glMul(res, base)
		}
		base = glMul(base, base)
		e >>= 1
	}
	return res
}

// trimToRepo drops the innermost frames until the first repository function.
func trimToRepo(pcs []uintptr) []uintptr {
	for i, pc := range pcs {
		if f := runtime.FuncForPC(pc - 1); f != nil && strings.Contains(f.Name(), repoMarker) {
			return pcs[i:]
		}
	}
	return pcs
}

var (
	regOnce sync.Once
	regIDs  map[solver.HintID]bool
)

func hintRegistered(f solver.Hint) bool {
	regOnce.Do(func() {
		regIDs = map[solver.HintID]bool{}
		for _, h := range solver.GetRegisteredHints() {
			regIDs[solver.GetHintID(h)] = true
		}
	})
	return regIDs[solver.GetHintID(f)]
}
