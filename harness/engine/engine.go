// Package engine is the monitoring evaluation engine: an implementation of gnark's
// frontend.API + frontend.Compiler that executes a circuit's Define code on concrete
// BN254 values, with the monitors (assertion/range-check/hint event stream, hint
// adversary, shadow integer-bound monitor) built in. See DESIGN.md §1.1.
package engine

import (
	"crypto/sha256"
	"fmt"
	"math/big"
	mbits "math/bits"
	"reflect"
	"runtime"
	"strings"

	"github.com/consensys/gnark-crypto/ecc/bn254/fr"
	"github.com/consensys/gnark/constraint"
	"github.com/consensys/gnark/constraint/solver"
	"github.com/consensys/gnark/frontend"
)

// Face selects which optional gnark interfaces the api object exposes; the repository
// picks its range-check mechanism by type-asserting the api.
type Face int

const (
	Plain  Face = iota // neither Rangechecker nor Committer -> bit decomposition
	Native             // frontend.Rangechecker
	Commit             // frontend.Committer (+ kvstore) -> gnark's commit range checker
)

func (f Face) String() string {
	switch f {
	case Plain:
		return "plain"
	case Native:
		return "native"
	case Commit:
		return "commit"
	}
	return "?"
}

// V is the concrete value of a circuit variable.
type V struct {
	E fr.Element
	S *Shadow // nil unless the shadow monitor is on
}

func (v *V) String() string { return v.E.String() }

// Big returns the canonical integer value.
func (v *V) Big() *big.Int { var b big.Int; v.E.BigInt(&b); return &b }

type Verdict int

const (
	Accept Verdict = iota
	Reject
	Refuse
	Inconclusive
)

func (v Verdict) String() string {
	return [...]string{"ACCEPT", "REJECT", "REFUSE", "INCONCLUSIVE"}[v]
}

// Failure is one failed assertion / range check.
type Failure struct {
	Kind string // assert_eq, assert_bool, rangecheck, tobinary, div, ...
	Site string // innermost repository frames
	Msg  string
}

type Stats struct {
	Hints       uint64
	HintRefused uint64
	HintSubst   uint64
	RangeChecks uint64
	Asserts     uint64
	Muls        uint64
	Adds        uint64
	Deferred    uint64
	ToBinary    uint64
}

type Result struct {
	Verdict  Verdict
	Site     string
	Kind     string
	Msg      string
	Stats    Stats
	Failures []Failure // collect mode: all failures
	// When the hint policy substituted outputs: did the (first) failure happen while the
	// function that issued the substituted hint was still on the stack, and how many hints
	// had been issued by then.
	Substituted bool
	InScope     bool
	FailSeq     uint64
}

func (r Result) String() string {
	return fmt.Sprintf("%s kind=%s site=%s msg=%s", r.Verdict, r.Kind, r.Site, r.Msg)
}

type Options struct {
	Face    Face
	Policy  HintPolicy // nil = honest with total fallback
	Collect bool       // keep going after a failed assertion
	Shadow  *ShadowCfg // nil = off
	OnHint  func(ev *HintEvent)
}

// Engine implements frontend.API, frontend.Compiler and the key/value store.
type Engine struct {
	self     frontend.API
	opt      Options
	kv       map[any]any
	deferred []func(frontend.API) error
	st       Stats
	failures []Failure
	hintSeq  uint64
	scope    []uintptr // stack of the substituted NewHint call (innermost first)
	// scopePending: the scope is settled at the first operation after the substituted hint:
	// it is the innermost function that is active both when the hint is requested and when
	// its outputs are first used (a helper that merely wraps NewHint is not the site)
	scopePending bool
	failSeen bool
	inScope  bool
	failSeq  uint64
	sh       *shadowState
	zero     *V
	one      *V
}

type rejectSignal struct{ f Failure }

var rMod = fr.Modulus()

const repoMarker = "example-near-light-client/"
const repoPathMarker = "gnark-plonky2-verifier/"

func newEngine(opt Options) *Engine {
	e := &Engine{opt: opt, kv: map[any]any{}}
	e.zero = &V{}
	e.one = &V{}
	e.one.E.SetOne()
	if opt.Shadow != nil {
		e.sh = newShadowState(opt.Shadow)
		e.zero.S = e.sh.constShadow(&e.zero.E)
		e.one.S = e.sh.constShadow(&e.one.E)
	}
	return e
}

// faces -----------------------------------------------------------------------------

type plainAPI struct{ *Engine }

type nativeAPI struct{ *Engine }

// Check implements frontend.Rangechecker: the builder range-checks natively.
func (n nativeAPI) Check(v frontend.Variable, bits int) {
	n.Engine.nativeCheck(v, bits)
}

type commitAPI struct{ *Engine }

// Commit implements frontend.Committer.
func (c commitAPI) Commit(v ...frontend.Variable) (frontend.Variable, error) {
	return c.Engine.commit(v...)
}

func (e *Engine) nativeCheck(v frontend.Variable, bits int) {
	x := e.val(v)
	e.st.RangeChecks++
	ok := BitLen(&x.E) <= bits
	if e.sh != nil {
		e.sh.onCheck(x, bits)
	}
	if !ok {
		e.fail("rangecheck", fmt.Sprintf("native Check(%s,%d)", x.E.String(), bits))
	}
}

func (e *Engine) commit(v ...frontend.Variable) (frontend.Variable, error) {
	h := sha256.New()
	h.Write([]byte("verif engine commit"))
	for i := range v {
		b := e.val(v[i]).E.Bytes()
		h.Write(b[:])
	}
	var out fr.Element
	out.SetBytes(h.Sum(nil))
	return e.newV(out), nil
}

// Run executes define on a fresh engine of the given face and classifies the outcome.
func Run(opt Options, define func(api frontend.API) error) (res Result) {
	e := newEngine(opt)
	switch opt.Face {
	case Plain:
		e.self = plainAPI{e}
	case Native:
		e.self = nativeAPI{e}
	case Commit:
		e.self = commitAPI{e}
	}
	defer func() {
		res.Stats = e.st
		res.Failures = e.failures
		res.Substituted = e.scope != nil
		res.InScope, res.FailSeq = e.inScope, e.failSeq
		if rec := recover(); rec != nil {
			if rs, ok := rec.(rejectSignal); ok {
				res.Verdict = Reject
				res.Kind, res.Site, res.Msg = rs.f.Kind, rs.f.Site, rs.f.Msg
				return
			}
			origin, inHarness := panicOrigin()
			res.Msg = trunc(fmt.Sprint(rec), 300)
			res.Site = origin
			res.Kind = "panic"
			if inHarness {
				res.Verdict = Inconclusive
			} else {
				res.Verdict = Refuse
			}
		}
	}()
	if err := define(e.self); err != nil {
		res.Verdict = Refuse
		res.Kind = "define_error"
		res.Msg = trunc(err.Error(), 300)
		return
	}
	for i := 0; i < len(e.deferred); i++ {
		e.st.Deferred++
		if err := e.deferred[i](e.self); err != nil {
			res.Verdict = Refuse
			res.Kind = "deferred_error"
			res.Msg = trunc(err.Error(), 300)
			return
		}
	}
	if e.sh != nil {
		e.sh.finish()
	}
	if len(e.failures) > 0 {
		res.Verdict = Reject
		f := e.failures[0]
		res.Kind, res.Site, res.Msg = f.Kind, f.Site, f.Msg
		return
	}
	res.Verdict = Accept
	return
}

// ShadowReport returns the shadow monitor's findings of the last run with that cfg.
func trunc(s string, n int) string {
	if len(s) > n {
		return s[:n]
	}
	return s
}

// panicOrigin finds the first non-runtime frame below the panic machinery.
func panicOrigin() (string, bool) {
	pcs := make([]uintptr, 64)
	n := runtime.Callers(3, pcs)
	frames := runtime.CallersFrames(pcs[:n])
	seenPanic := false
	for {
		fr, more := frames.Next()
		fn := fr.Function
		if strings.HasPrefix(fn, "runtime.") {
			if strings.Contains(fn, "panic") || strings.Contains(fn, "goPanic") {
				seenPanic = true
			}
		} else if seenPanic {
			inHarness := strings.HasPrefix(fn, "verifharness/")
			return shortFn(fn), inHarness
		}
		if !more {
			break
		}
	}
	return "?", false
}

func shortFn(fn string) string {
	if i := strings.Index(fn, repoMarker); i >= 0 {
		return fn[i+len(repoMarker):]
	}
	if i := strings.LastIndex(fn, "/"); i >= 0 {
		return fn[i+1:]
	}
	return fn
}

// repoSite returns the innermost (up to depth) repository frames of the current stack.
func repoSite(skip, depth int) string {
	var pcs [48]uintptr
	n := runtime.Callers(skip, pcs[:])
	frames := runtime.CallersFrames(pcs[:n])
	var parts []string
	for {
		fr, more := frames.Next()
		if strings.Contains(fr.Function, repoMarker) {
			parts = append(parts, shortFn(fr.Function))
			if len(parts) >= depth {
				break
			}
		}
		if !more {
			break
		}
	}
	if len(parts) == 0 {
		return "(no repo frame)"
	}
	return strings.Join(parts, "<")
}

// captureStack returns the return PCs above skip.
func captureStack(skip int) []uintptr {
	pcs := make([]uintptr, 64)
	n := runtime.Callers(skip, pcs)
	return pcs[:n]
}

func funcEntry(pc uintptr) uintptr {
	if f := runtime.FuncForPC(pc - 1); f != nil {
		return f.Entry()
	}
	return 0
}

// settleScope narrows the recorded hint stack to the function that consumes the outputs.
func (e *Engine) settleScope() {
	e.scopePending = false
	sc := e.scope
	cur := trimToRepo(captureStack(3))
	a, b := len(sc)-1, len(cur)-1
	for a >= 0 && b >= 0 && sc[a] == cur[b] {
		a--
		b--
	}
	switch {
	case a < 0:
		// the whole hint stack is still there (cannot happen for a returned call): keep it
	case b >= 0 && funcEntry(sc[a]) == funcEntry(cur[b]):
		e.scope = sc[a:] // same function, other call site inside it
	case a+1 < len(sc):
		e.scope = sc[a+1:] // the function that requested the hint has returned: its caller consumes the outputs
	}
}

// scopeCheck: is the function that issued the substituted hint still on the stack, with
// the same chain of callers?
func (e *Engine) scopeCheck() bool {
	cur := captureStack(2)
	sc := e.scope
	if len(cur) < len(sc) {
		return false
	}
	off := len(cur) - len(sc)
	for i := 1; i < len(sc); i++ {
		if cur[off+i] != sc[i] {
			return false
		}
	}
	return funcEntry(cur[off]) == funcEntry(sc[0])
}

func (e *Engine) fail(kind, msg string) {
	if e.scopePending {
		e.settleScope()
	}
	if e.scope != nil && !e.failSeen {
		e.failSeen = true
		e.inScope = e.scopeCheck()
		e.failSeq = e.hintSeq
	}
	f := Failure{Kind: kind, Site: repoSite(3, 4), Msg: trunc(msg, 200)}
	if e.opt.Collect {
		e.failures = append(e.failures, f)
		return
	}
	panic(rejectSignal{f})
}

// value conversion ---------------------------------------------------------------------

type toBigIntInterface interface {
	ToBigIntRegular(res *big.Int) *big.Int
}

func (e *Engine) newV(x fr.Element) *V {
	return &V{E: x}
}

// el is val without a heap allocation for constants (tmp lives on the caller's stack).
func (e *Engine) el(i frontend.Variable, tmp *V) *V {
	if e.scopePending {
		e.settleScope()
	}
	if v, ok := i.(*V); ok {
		return v
	}
	setConst(&tmp.E, i)
	if e.sh != nil {
		tmp.S = e.sh.constShadow(&tmp.E)
	}
	return tmp
}

// val converts any frontend.Variable (engine value or Go constant) to an engine value.
func (e *Engine) val(i frontend.Variable) *V {
	if e.scopePending {
		e.settleScope()
	}
	switch t := i.(type) {
	case *V:
		return t
	case V:
		return &t
	}
	v := &V{}
	setConst(&v.E, i)
	if e.sh != nil {
		v.S = e.sh.constShadow(&v.E)
	}
	return v
}

func setConst(z *fr.Element, i interface{}) {
	switch t := i.(type) {
	case uint64:
		z.SetUint64(t)
	case int:
		z.SetInt64(int64(t))
	case *big.Int:
		if t.IsUint64() {
			z.SetUint64(t.Uint64())
		} else {
			z.SetBigInt(t)
		}
	case big.Int:
		z.SetBigInt(&t)
	case uint8:
		z.SetUint64(uint64(t))
	case uint16:
		z.SetUint64(uint64(t))
	case uint32:
		z.SetUint64(uint64(t))
	case uint:
		z.SetUint64(uint64(t))
	case int8:
		z.SetInt64(int64(t))
	case int16:
		z.SetInt64(int64(t))
	case int32:
		z.SetInt64(int64(t))
	case int64:
		z.SetInt64(t)
	case string:
		var b big.Int
		if _, ok := b.SetString(t, 0); !ok {
			panic("unable to set big.Int from string " + t)
		}
		z.SetBigInt(&b)
	case []byte:
		var b big.Int
		b.SetBytes(t)
		z.SetBigInt(&b)
	case fr.Element:
		z.Set(&t)
	case *fr.Element:
		z.Set(t)
	case nil:
		panic("nil variable (missing assignment)")
	default:
		if v, ok := i.(toBigIntInterface); ok {
			var b big.Int
			v.ToBigIntRegular(&b)
			z.SetBigInt(&b)
			return
		}
		rv := reflect.ValueOf(i)
		if rv.Kind() == reflect.Pointer && !rv.IsNil() {
			if v, ok := rv.Interface().(toBigIntInterface); ok {
				var b big.Int
				v.ToBigIntRegular(&b)
				z.SetBigInt(&b)
				return
			}
			// *frontend.Variable placeholders (cmd/compile.go uses new(frontend.Variable))
			if rv.Elem().Kind() == reflect.Interface {
				if rv.Elem().IsNil() {
					panic("nil variable (missing assignment)")
				}
				setConst(z, rv.Elem().Interface())
				return
			}
		}
		panic(reflect.TypeOf(i).String() + " to field element not supported")
	}
}

// arithmetic -------------------------------------------------------------------------

func (e *Engine) Add(i1, i2 frontend.Variable, in ...frontend.Variable) frontend.Variable {
	var ta, tb V
	a, b := e.el(i1, &ta), e.el(i2, &tb)
	e.st.Adds++
	r := &V{}
	r.E.Add(&a.E, &b.E)
	if e.sh != nil {
		r.S = e.sh.add(a, b)
	}
	for i := range in {
		var tc V
		c := e.el(in[i], &tc)
		n := &V{}
		n.E.Add(&r.E, &c.E)
		if e.sh != nil {
			n.S = e.sh.add(r, c)
		}
		r = n
	}
	return r
}

func (e *Engine) MulAcc(a, b, c frontend.Variable) frontend.Variable {
	var ta, tb, tc V
	x, y, z := e.el(a, &ta), e.el(b, &tb), e.el(c, &tc)
	e.st.Muls++
	r := &V{}
	r.E.Mul(&y.E, &z.E)
	if e.sh != nil {
		m := &V{E: r.E, S: e.sh.mul(y, z)}
		r.E.Add(&r.E, &x.E)
		r.S = e.sh.add(x, m)
		return r
	}
	r.E.Add(&r.E, &x.E)
	return r
}

func (e *Engine) Neg(i1 frontend.Variable) frontend.Variable {
	a := e.val(i1)
	r := &V{}
	r.E.Neg(&a.E)
	if e.sh != nil {
		r.S = e.sh.opaque(&r.E, a)
	}
	return r
}

func (e *Engine) Sub(i1, i2 frontend.Variable, in ...frontend.Variable) frontend.Variable {
	var ta, tb V
	a, b := e.el(i1, &ta), e.el(i2, &tb)
	r := &V{}
	r.E.Sub(&a.E, &b.E)
	if e.sh != nil {
		r.S = e.sh.sub(&r.E, a, b)
	}
	for i := range in {
		c := e.val(in[i])
		n := &V{}
		n.E.Sub(&r.E, &c.E)
		if e.sh != nil {
			n.S = e.sh.sub(&n.E, r, c)
		}
		r = n
	}
	return r
}

func (e *Engine) Mul(i1, i2 frontend.Variable, in ...frontend.Variable) frontend.Variable {
	var ta, tb V
	a, b := e.el(i1, &ta), e.el(i2, &tb)
	e.st.Muls++
	r := &V{}
	r.E.Mul(&a.E, &b.E)
	if e.sh != nil {
		r.S = e.sh.mul(a, b)
	}
	for i := range in {
		c := e.val(in[i])
		n := &V{}
		n.E.Mul(&r.E, &c.E)
		if e.sh != nil {
			n.S = e.sh.mul(r, c)
		}
		r = n
	}
	return r
}

func (e *Engine) DivUnchecked(i1, i2 frontend.Variable) frontend.Variable {
	a, b := e.val(i1), e.val(i2)
	r := &V{}
	if b.E.IsZero() {
		if a.E.IsZero() {
			return e.zeroV()
		}
		e.fail("div", "DivUnchecked: no inverse")
		return e.zeroV()
	}
	r.E.Div(&a.E, &b.E)
	if e.sh != nil {
		r.S = e.sh.opaque(&r.E, a, b)
	}
	return r
}

func (e *Engine) zeroV() *V {
	v := &V{}
	if e.sh != nil {
		v.S = e.sh.constShadow(&v.E)
	}
	return v
}

func (e *Engine) Div(i1, i2 frontend.Variable) frontend.Variable {
	a, b := e.val(i1), e.val(i2)
	if b.E.IsZero() {
		e.fail("div", "Div: no inverse")
		return e.zeroV()
	}
	r := &V{}
	r.E.Div(&a.E, &b.E)
	if e.sh != nil {
		r.S = e.sh.opaque(&r.E, a, b)
	}
	return r
}

func (e *Engine) Inverse(i1 frontend.Variable) frontend.Variable {
	a := e.val(i1)
	if a.E.IsZero() {
		e.fail("div", "Inverse: no inverse")
		return e.zeroV()
	}
	r := &V{}
	r.E.Inverse(&a.E)
	if e.sh != nil {
		r.S = e.sh.opaque(&r.E, a)
	}
	return r
}

func (e *Engine) BatchInvert(in []frontend.Variable) []frontend.Variable {
	es := make([]fr.Element, len(in))
	for i := range in {
		es[i] = e.val(in[i]).E
	}
	inv := fr.BatchInvert(es)
	out := make([]frontend.Variable, len(in))
	for i := range inv {
		v := &V{E: inv[i]}
		if e.sh != nil {
			v.S = e.sh.opaque(&v.E)
		}
		out[i] = v
	}
	return out
}

func (e *Engine) bit(b bool) *V {
	v := &V{}
	if b {
		v.E.SetOne()
	}
	if e.sh != nil {
		v.S = e.sh.boolShadow(&v.E)
	}
	return v
}

// ToBinary decomposes into n bits (little endian); the canonical value must fit.
func (e *Engine) ToBinary(i1 frontend.Variable, n ...int) []frontend.Variable {
	a := e.val(i1)
	e.st.ToBinary++
	nb := fr.Bits
	if len(n) == 1 {
		nb = n[0]
		if nb < 0 {
			panic("invalid n")
		}
	}
	reg := a.E.Bits() // regular form, little-endian words
	if BitLen(&a.E) > nb {
		e.fail("tobinary", fmt.Sprintf("ToBinary: %s does not fit %d bits", a.E.String(), nb))
	}
	out := make([]frontend.Variable, nb)
	for i := 0; i < nb; i++ {
		var b bool
		if i < 256 {
			b = (reg[i/64]>>(uint(i)%64))&1 == 1
		}
		out[i] = e.bit(b)
	}
	if e.sh != nil {
		e.sh.onCheck(a, nb)
	}
	return out
}

func (e *Engine) isBool(v *V) bool { return v.E.IsZero() || v.E.IsOne() }

func (e *Engine) mustBool(v *V, ctx string) bool {
	if !e.isBool(v) {
		e.fail("assert_bool", ctx+": "+v.E.String()+" is not boolean")
		return false
	}
	return true
}

func (e *Engine) FromBinary(b ...frontend.Variable) frontend.Variable {
	r := &V{}
	var c fr.Element
	c.SetOne()
	vs := make([]*V, len(b))
	for i := range b {
		vs[i] = e.val(b[i])
		e.mustBool(vs[i], "FromBinary")
		if vs[i].E.IsOne() {
			r.E.Add(&r.E, &c)
		}
		c.Double(&c)
	}
	if e.sh != nil {
		r.S = e.sh.fromBinary(len(b))
	}
	return r
}

func (e *Engine) Xor(a, b frontend.Variable) frontend.Variable {
	x, y := e.val(a), e.val(b)
	e.mustBool(x, "Xor")
	e.mustBool(y, "Xor")
	return e.bit(x.E.IsOne() != y.E.IsOne())
}

func (e *Engine) Or(a, b frontend.Variable) frontend.Variable {
	x, y := e.val(a), e.val(b)
	e.mustBool(x, "Or")
	e.mustBool(y, "Or")
	return e.bit(x.E.IsOne() || y.E.IsOne())
}

func (e *Engine) And(a, b frontend.Variable) frontend.Variable {
	x, y := e.val(a), e.val(b)
	e.mustBool(x, "And")
	e.mustBool(y, "And")
	return e.bit(x.E.IsOne() && y.E.IsOne())
}

func (e *Engine) Select(b frontend.Variable, i1, i2 frontend.Variable) frontend.Variable {
	s := e.val(b)
	var tx, ty V
	x, y := e.el(i1, &tx), e.el(i2, &ty)
	e.mustBool(s, "Select")
	var src *V
	if s.E.IsOne() {
		src = x
	} else {
		src = y
	}
	r := &V{E: src.E}
	if e.sh != nil {
		r.S = e.sh.choice(x, y)
	}
	return r
}

func (e *Engine) Lookup2(b0, b1 frontend.Variable, i0, i1, i2, i3 frontend.Variable) frontend.Variable {
	s0, s1 := e.val(b0), e.val(b1)
	e.mustBool(s0, "Lookup2")
	e.mustBool(s1, "Lookup2")
	vs := [4]*V{e.val(i0), e.val(i1), e.val(i2), e.val(i3)}
	idx := 0
	if s0.E.IsOne() {
		idx |= 1
	}
	if s1.E.IsOne() {
		idx |= 2
	}
	r := &V{E: vs[idx].E}
	if e.sh != nil {
		r.S = e.sh.choice(vs[0], vs[1], vs[2], vs[3])
	}
	return r
}

func (e *Engine) IsZero(i1 frontend.Variable) frontend.Variable {
	var ta V
	return e.bit(e.el(i1, &ta).E.IsZero())
}

func (e *Engine) Cmp(i1, i2 frontend.Variable) frontend.Variable {
	a, b := e.val(i1), e.val(i2)
	r := &V{}
	r.E.SetInt64(int64(a.E.Cmp(&b.E)))
	if e.sh != nil {
		r.S = e.sh.opaque(&r.E)
	}
	return r
}

func (e *Engine) AssertIsEqual(i1, i2 frontend.Variable) {
	var ta, tb V
	a, b := e.el(i1, &ta), e.el(i2, &tb)
	e.st.Asserts++
	if e.sh != nil {
		e.sh.onEqual(a, b)
	}
	if !a.E.Equal(&b.E) {
		e.fail("assert_eq", "AssertIsEqual "+a.E.String()+" != "+b.E.String())
	}
}

func (e *Engine) AssertIsDifferent(i1, i2 frontend.Variable) {
	a, b := e.val(i1), e.val(i2)
	e.st.Asserts++
	if a.E.Equal(&b.E) {
		e.fail("assert_neq", "AssertIsDifferent "+a.E.String())
	}
}

func (e *Engine) AssertIsBoolean(i1 frontend.Variable) {
	var ta V
	a := e.el(i1, &ta)
	e.st.Asserts++
	if e.sh != nil {
		e.sh.onCheck(a, 1)
	}
	e.mustBool(a, "AssertIsBoolean")
}

func (e *Engine) AssertIsLessOrEqual(v frontend.Variable, bound frontend.Variable) {
	a, b := e.val(v), e.val(bound)
	e.st.Asserts++
	if a.E.Cmp(&b.E) > 0 {
		e.fail("assert_le", "AssertIsLessOrEqual "+a.E.String()+" > "+b.E.String())
	}
}

func (e *Engine) Println(a ...frontend.Variable) {}

func (e *Engine) Compiler() frontend.Compiler { return e.self.(frontend.Compiler) }

// frontend.Compiler --------------------------------------------------------------------

func (e *Engine) MarkBoolean(v frontend.Variable) {}
func (e *Engine) IsBoolean(v frontend.Variable) bool {
	return e.isBool(e.val(v))
}
func (e *Engine) NewHintForId(id solver.HintID, nbOutputs int, inputs ...frontend.Variable) ([]frontend.Variable, error) {
	if f := solver.GetRegisteredHint(id); f != nil {
		return e.NewHint(f, nbOutputs, inputs...)
	}
	return nil, fmt.Errorf("no hint registered with id #%d", id)
}
func (e *Engine) ConstantValue(v frontend.Variable) (*big.Int, bool) {
	if _, ok := v.(*V); ok {
		return nil, false
	}
	// Go constants are constants
	x := &V{}
	setConst(&x.E, v)
	return x.Big(), true
}
func (e *Engine) Field() *big.Int  { return rMod }
func (e *Engine) FieldBitLen() int { return fr.Bits }
func (e *Engine) Defer(cb func(api frontend.API) error) {
	e.deferred = append(e.deferred, cb)
}
func (e *Engine) InternalVariable(wireID uint32) frontend.Variable {
	panic("InternalVariable: blueprints are not supported by the monitoring engine")
}
func (e *Engine) ToCanonicalVariable(frontend.Variable) frontend.CanonicalVariable {
	panic("ToCanonicalVariable: not supported by the monitoring engine")
}
func (e *Engine) SetGkrInfo(constraint.GkrInfo) error { return fmt.Errorf("not implemented") }
func (e *Engine) AddBlueprint(b constraint.Blueprint) constraint.BlueprintID {
	panic("AddBlueprint: not supported by the monitoring engine")
}
func (e *Engine) AddInstruction(bID constraint.BlueprintID, calldata []uint32) []uint32 {
	panic("AddInstruction: not supported by the monitoring engine")
}

// key/value store (matched structurally by gnark's std gadgets)
func (e *Engine) SetKeyValue(key, value any) { e.kv[key] = value }
func (e *Engine) GetKeyValue(key any) any    { return e.kv[key] }

// MustBeLessOrEqCst is looked up by std/math/bits for full-width decompositions.
func (e *Engine) MustBeLessOrEqCst(aBits []frontend.Variable, bound *big.Int, aForDebug frontend.Variable) {
	v := new(big.Int)
	for i, b := range aBits {
		bv := e.val(b)
		if !e.mustBool(bv, "MustBeLessOrEqCst") {
			return
		}
		if bv.E.IsOne() {
			v.SetBit(v, i, 1)
		}
	}
	if v.Cmp(bound) > 0 {
		e.fail("assert_le", fmt.Sprintf("MustBeLessOrEqCst %s > %s", v, bound))
	}
}

// BitLen is the bit length of the canonical value (fr.Element.BitLen works on the
// Montgomery form).
func BitLen(x *fr.Element) int {
	w := x.Bits()
	for i := 3; i >= 0; i-- {
		if w[i] != 0 {
			return i*64 + mbits.Len64(w[i])
		}
	}
	return 0
}

// Value reads the concrete value of an output variable (for gadget-level oracles).
func Value(v frontend.Variable) *big.Int {
	switch t := v.(type) {
	case *V:
		return t.Big()
	}
	x := &V{}
	setConst(&x.E, v)
	return x.Big()
}

// AcceptedHonestly: the execution was accepted AND every honest hint function produced its
// outputs. When an honest hint refuses its inputs the engine carries on with a total
// fallback (acceptance is existential over hint outputs, which is what must-reject sweeps
// need); for "a valid input must be accepted" judgements that is not good enough: the real
// prover only has the repository's hint functions.
func (r Result) AcceptedHonestly() bool {
	return r.Verdict == Accept && r.Stats.HintRefused == 0
}
