package engine

import (
	"fmt"
	"math/big"
	"math/bits"
	"sort"
	"strings"

	"github.com/consensys/gnark-crypto/ecc/bn254/fr"
	"github.com/consensys/gnark/frontend"
)

// The shadow monitor: an "integer-overflow sanitizer" for field arithmetic. Every value
// carries two data-independent integer upper bounds:
//   Adv: what the constraints justified so far force on ANY prover's value,
//   Hon: the bound under canonical inputs and honest hints.
// Leaf bounds (hint outputs, inputs) learned from range checks / integer equalities in
// one pass are fed to the next pass (Known), so that an equality asserted before the
// range checks of its operands (MulAdd, RangeCheck) is judged with the final bounds.
// Each learned bound is justified by constraints using only earlier-justified bounds,
// so the fixpoint is sound. Bounds never depend on concrete values.

// U256 is a saturating 256-bit unsigned integer (Inf = at least 2^256).
type U256 struct {
	W   [4]uint64
	Inf bool
}

var rWords = func() [4]uint64 {
	var w [4]uint64
	b := fr.Modulus()
	ws := b.Bits()
	for i := range ws {
		w[i] = uint64(ws[i])
	}
	return w
}()

func u64(x uint64) U256 { return U256{W: [4]uint64{x, 0, 0, 0}} }

func uPow2m1(n int) U256 { // 2^n - 1
	if n >= 256 {
		return U256{Inf: true}
	}
	var u U256
	for i := 0; i < n; i++ {
		u.W[i/64] |= 1 << (uint(i) % 64)
	}
	return u
}

func uFromBig(b *big.Int) U256 {
	if b.BitLen() > 256 {
		return U256{Inf: true}
	}
	var u U256
	for i, w := range b.Bits() {
		u.W[i] = uint64(w)
	}
	return u
}

func (u U256) Big() *big.Int {
	if u.Inf {
		return new(big.Int).Lsh(big.NewInt(1), 256)
	}
	b := new(big.Int)
	for i := 3; i >= 0; i-- {
		b.Lsh(b, 64)
		b.Or(b, new(big.Int).SetUint64(u.W[i]))
	}
	return b
}

func (u U256) BitLen() int {
	if u.Inf {
		return 257
	}
	for i := 3; i >= 0; i-- {
		if u.W[i] != 0 {
			return i*64 + bits.Len64(u.W[i])
		}
	}
	return 0
}

func (u U256) cmpWords(w [4]uint64) int {
	if u.Inf {
		return 1
	}
	for i := 3; i >= 0; i-- {
		if u.W[i] > w[i] {
			return 1
		}
		if u.W[i] < w[i] {
			return -1
		}
	}
	return 0
}

func (u U256) Cmp(v U256) int {
	if u.Inf && v.Inf {
		return 0
	}
	if v.Inf {
		return -1
	}
	return u.cmpWords(v.W)
}

// Wrapped: the bound reaches the BN254 modulus.
func (u U256) Wrapped() bool { return u.cmpWords(rWords) >= 0 }

func uAdd(a, b U256) U256 {
	if a.Inf || b.Inf {
		return U256{Inf: true}
	}
	var r U256
	var c uint64
	for i := 0; i < 4; i++ {
		r.W[i], c = bits.Add64(a.W[i], b.W[i], c)
	}
	if c != 0 {
		return U256{Inf: true}
	}
	return r
}

func uMul(a, b U256) U256 {
	if a.Inf || b.Inf {
		if (!a.Inf && a.BitLen() == 0) || (!b.Inf && b.BitLen() == 0) {
			return U256{}
		}
		return U256{Inf: true}
	}
	var t [8]uint64
	for i := 0; i < 4; i++ {
		var carry uint64
		for j := 0; j < 4; j++ {
			hi, lo := bits.Mul64(a.W[i], b.W[j])
			var c1, c2 uint64
			lo, c1 = bits.Add64(lo, t[i+j], 0)
			lo, c2 = bits.Add64(lo, carry, 0)
			t[i+j] = lo
			carry = hi + c1 + c2
		}
		t[i+4] += carry
	}
	if t[4]|t[5]|t[6]|t[7] != 0 {
		return U256{Inf: true}
	}
	return U256{W: [4]uint64{t[0], t[1], t[2], t[3]}}
}

func uDivSmall(a U256, d uint64) U256 {
	if a.Inf {
		return a
	}
	var q U256
	var rem uint64
	for i := 3; i >= 0; i-- {
		q.W[i], rem = bits.Div64(rem, a.W[i], d)
	}
	return q
}

func uMin(a, b U256) U256 {
	if a.Cmp(b) <= 0 {
		return a
	}
	return b
}
func uMax(a, b U256) U256 {
	if a.Cmp(b) >= 0 {
		return a
	}
	return b
}

var uRm1 = func() U256 { b := new(big.Int).Sub(fr.Modulus(), big.NewInt(1)); return uFromBig(b) }()
var uPm1 = u64(glP - 1)

// Shadow is the per-value monitor state.
type Shadow struct {
	Adv   U256
	Hon   U256
	Leaf  int64 // leaf key (>=0) for inputs / hint outputs, -1 otherwise
	Canon bool  // the value was passed through the chip's canonical range check (RangeCheck)
}

// LeafKey encodings
func hintLeafKey(seq uint64, idx int) int64 { return int64(seq)<<10 | int64(idx) | 1<<62 }
func InputLeafKey(i int) int64              { return int64(i) }

// ShadowCfg carries the bound table between passes.
type ShadowCfg struct {
	Known   map[int64]U256 // justified leaf bounds from earlier passes
	Learned map[int64]U256 // filled by this pass
	Final   bool           // judge equalities / sites in this pass
	Report  *ShadowReport
}

type SiteStat struct {
	Site        string
	Hint        string
	Count       uint64
	MaxObsBits  []int // per output: largest bit length observed
	AllowedBits []int // per output: bit length of the enforced bound (min over instances)
	HonBits     []int // per output: bit length of the honest bound (max over instances)
}

type Finding struct {
	Kind   string // eq_wrapped, output_unbounded, honest_overflow
	Site   string
	Detail string
}

type ShadowReport struct {
	Sites      map[string]*SiteStat
	EqSites    map[string]uint64 // integer-equality sites judged -> count
	Findings   map[string]*Finding
	FindCount  map[string]uint64
	Changed    int // number of leaf bounds newly learned in this pass
	CanonMarks int // values seen entering the chip's canonical range check (0 = the monitor is blind to it)
}

func NewShadowReport() *ShadowReport {
	return &ShadowReport{Sites: map[string]*SiteStat{}, EqSites: map[string]uint64{}, Findings: map[string]*Finding{}, FindCount: map[string]uint64{}}
}

func (r *ShadowReport) SortedFindings() []*Finding {
	var ks []string
	for k := range r.Findings {
		ks = append(ks, k)
	}
	sort.Strings(ks)
	out := make([]*Finding, 0, len(ks))
	for _, k := range ks {
		out = append(out, r.Findings[k])
	}
	return out
}

type shadowState struct {
	cfg *ShadowCfg
	// pending checks of hint outputs (judged in finish, Final pass only)
	outs []pendingOut
}

type pendingOut struct {
	site, hint string
	idx        int
	v          *V
}

func newShadowState(cfg *ShadowCfg) *shadowState {
	if cfg.Learned == nil {
		cfg.Learned = map[int64]U256{}
	}
	if cfg.Report == nil {
		cfg.Report = NewShadowReport()
	}
	return &shadowState{cfg: cfg}
}

func (s *shadowState) constShadow(x *fr.Element) *Shadow {
	var b big.Int
	x.BigInt(&b)
	u := uFromBig(&b)
	return &Shadow{Adv: u, Hon: u, Leaf: -1}
}

func (s *shadowState) boolShadow(x *fr.Element) *Shadow {
	return &Shadow{Adv: u64(1), Hon: u64(1), Leaf: -1}
}

func (s *shadowState) opaque(x *fr.Element, _ ...*V) *Shadow {
	return &Shadow{Adv: uRm1, Hon: uRm1, Leaf: -1}
}

func (s *shadowState) add(a, b *V) *Shadow {
	return &Shadow{Adv: uAdd(a.S.Adv, b.S.Adv), Hon: uAdd(a.S.Hon, b.S.Hon), Leaf: -1}
}

func (s *shadowState) mul(a, b *V) *Shadow {
	return &Shadow{Adv: uMul(a.S.Adv, b.S.Adv), Hon: uMul(a.S.Hon, b.S.Hon), Leaf: -1}
}

// sub: a-b may go negative, i.e. wrap: the result is an arbitrary field element.
func (s *shadowState) sub(x *fr.Element, a, b *V) *Shadow {
	return &Shadow{Adv: U256{Inf: true}, Hon: U256{Inf: true}, Leaf: -1}
}

func (s *shadowState) choice(vs ...*V) *Shadow {
	sh := &Shadow{Leaf: -1}
	for _, v := range vs {
		sh.Adv = uMax(sh.Adv, v.S.Adv)
		sh.Hon = uMax(sh.Hon, v.S.Hon)
	}
	return sh
}

func (s *shadowState) fromBinary(n int) *Shadow {
	u := uPow2m1(n)
	return &Shadow{Adv: u, Hon: u, Leaf: -1}
}

// InputShadow creates the shadow of a circuit input leaf.
func InputShadow(cfg *ShadowCfg, key int64, hon U256) *Shadow {
	sh := &Shadow{Adv: uRm1, Hon: hon, Leaf: key}
	if cfg != nil {
		if k, ok := cfg.Known[key]; ok {
			sh.Adv = uMin(sh.Adv, k)
		}
	}
	return sh
}

func HonGoldilocks() U256 { return uPm1 }
func HonField() U256      { return uRm1 }
func Hon32() U256         { return u64(0xFFFFFFFF) }

func (s *shadowState) hintOutput(x *fr.Element, seq uint64, idx int) *Shadow {
	key := hintLeafKey(seq, idx)
	sh := &Shadow{Adv: uRm1, Hon: uRm1, Leaf: key}
	if k, ok := s.cfg.Known[key]; ok {
		sh.Adv = uMin(sh.Adv, k)
	}
	return sh
}

func (s *shadowState) learn(v *V, b U256) {
	if b.Cmp(v.S.Adv) < 0 {
		v.S.Adv = b
	}
	if v.S.Leaf >= 0 {
		old, ok := s.cfg.Known[v.S.Leaf]
		if !ok || b.Cmp(old) < 0 {
			if cur, ok2 := s.cfg.Learned[v.S.Leaf]; !ok2 || b.Cmp(cur) < 0 {
				s.cfg.Report.Changed++
				s.cfg.Learned[v.S.Leaf] = b
			}
		}
	}
}

// onCheck: a passed width check of v to nb bits.
func (s *shadowState) onCheck(v *V, nb int) {
	s.learn(v, uPow2m1(nb))
}

func (s *shadowState) add2(m map[string]uint64, k string) { m[k]++ }

func (s *shadowState) finding(kind, site, detail string) {
	key := kind + "|" + site
	s.cfg.Report.FindCount[key]++
	if _, ok := s.cfg.Report.Findings[key]; !ok {
		s.cfg.Report.Findings[key] = &Finding{Kind: kind, Site: site, Detail: detail}
	}
}

// onEqual: AssertIsEqual(a,b). If neither side can reach r the equality holds over the
// integers and the smaller bound transfers.
func (s *shadowState) onEqual(a, b *V) {
	aw, bw := a.S.Adv.Wrapped(), b.S.Adv.Wrapped()
	if !aw && !bw {
		m := uMin(a.S.Adv, b.S.Adv)
		s.learn(a, m)
		s.learn(b, m)
	}
	if !s.cfg.Final {
		return
	}
	site := repoSite(4, 3)
	if !integerEqualitySite(site) {
		return
	}
	s.cfg.Report.EqSites[site]++
	if aw || bw {
		s.finding("eq_wrapped", site, fmt.Sprintf("lhs bound %d bits, rhs bound %d bits (r has 254): the equality is only known modulo r", a.S.Adv.BitLen(), b.S.Adv.BitLen()))
	}
}

// integerEqualitySite: equalities that are meant to hold over the integers are the ones
// issued by the Goldilocks chip around its hints.
func integerEqualitySite(site string) bool {
	first := site
	if i := strings.Index(site, "<"); i >= 0 {
		first = site[:i]
	}
	switch first {
	case "goldilocks.(*Chip).MulAdd", "goldilocks.(*Chip).ReduceWithMaxBits", "goldilocks.(*Chip).RangeCheck", "verifier.(*CircuitFixed).Define":
		return true
	}
	return false
}

func (s *shadowState) onHint(ev *HintEvent, in []*V, out []frontend.Variable) {
	// honest bounds of the outputs
	hon := make([]U256, len(out))
	for i := range hon {
		hon[i] = uRm1
	}
	repoHint := true
	switch ev.Name {
	case "MulAddHint":
		x := uAdd(uMul(in[0].S.Hon, in[1].S.Hon), in[2].S.Hon)
		hon[0] = uDivSmall(x, glP)
		hon[1] = uPm1
		for i := 0; i < 3; i++ {
			if in[i].S.Hon.Cmp(uPm1) > 0 && s.cfg.Final {
				s.finding("honest_overflow", ev.Site, fmt.Sprintf("MulAdd operand %d may honestly reach %d bits: the honest hint refuses operands >= p", i, in[i].S.Hon.BitLen()))
			}
		}
	case "ReduceHint":
		hon[0] = uDivSmall(in[0].S.Hon, glP)
		hon[1] = uPm1
	case "InverseHint":
		hon[0] = uPm1
		if in[0].S.Hon.Cmp(uPm1) > 0 && s.cfg.Final {
			s.finding("honest_overflow", ev.Site, "Inverse operand may honestly exceed p-1")
		}
	case "SplitLimbsHint":
		hon[0] = uMin(u64(0xFFFFFFFF), uDivSmall(in[0].S.Hon, 1<<32))
		hon[1] = u64(0xFFFFFFFF)
		// requested by the canonical range check itself, directly or through a helper that
		// merely wraps NewHint (first or second frame of the site)
		if fs := strings.SplitN(ev.Site, "<", 3); fs[0] == "goldilocks.(*Chip).RangeCheck" || (len(fs) > 1 && fs[1] == "goldilocks.(*Chip).RangeCheck") {
			in[0].S.Canon = true
			s.cfg.Report.CanonMarks++
		}
	case "nBits", "NBits", "ithBit":
		for i := range hon {
			hon[i] = u64(1)
		}
		repoHint = false
	default:
		repoHint = false
	}
	for i := range out {
		v := out[i].(*V)
		v.S.Hon = hon[i]
	}
	if !s.cfg.Final {
		return
	}
	st := s.cfg.Report.Sites[ev.Site+"#"+ev.Name]
	if st == nil {
		st = &SiteStat{Site: ev.Site, Hint: ev.Name, MaxObsBits: make([]int, len(out)), AllowedBits: make([]int, len(out)), HonBits: make([]int, len(out))}
		for i := range st.AllowedBits {
			st.AllowedBits[i] = 1 << 20
		}
		s.cfg.Report.Sites[ev.Site+"#"+ev.Name] = st
	}
	st.Count++
	for i := range out {
		if i >= len(st.MaxObsBits) {
			break
		}
		v := out[i].(*V)
		if bl := ev.Outputs[i].BitLen(); bl > st.MaxObsBits[i] {
			st.MaxObsBits[i] = bl
		}
		if hb := hon[i].BitLen(); hb > st.HonBits[i] {
			st.HonBits[i] = hb
		}
		if repoHint {
			s.outs = append(s.outs, pendingOut{site: ev.Site, hint: ev.Name, idx: i, v: v})
		}
	}
}

// finish judges the hint outputs with their final bounds.
func (s *shadowState) finish() {
	if !s.cfg.Final {
		return
	}
	for _, po := range s.outs {
		st := s.cfg.Report.Sites[po.site+"#"+po.hint]
		adv := po.v.S.Adv
		if ab := adv.BitLen(); st != nil && po.idx < len(st.AllowedBits) && ab < st.AllowedBits[po.idx] {
			st.AllowedBits[po.idx] = ab
		}
		if adv.Cmp(uRm1) >= 0 {
			s.finding("output_unbounded", po.site, fmt.Sprintf("%s output %d never receives a width", po.hint, po.idx))
			continue
		}
		// uniqueness of the Euclidean division / inverse needs the canonical-form check (< p),
		// not just a 64-bit width: (q-1, rem+p) satisfies the same integer equation
		needCanon := (po.hint == "MulAddHint") || (po.hint == "ReduceHint" && po.idx == 1) || po.hint == "InverseHint"
		if needCanon && !po.v.S.Canon {
			s.finding("not_canonical_checked", po.site, fmt.Sprintf("%s output %d is never passed through the canonical range check (only a %d-bit width)", po.hint, po.idx, adv.BitLen()))
		}
		// completeness is judged for quotients and limbs only: a remainder / inverse may
		// legitimately be narrowed further by a later semantic check (e.g. proof of work).
		judgeHon := po.hint == "SplitLimbsHint" || ((po.hint == "MulAddHint" || po.hint == "ReduceHint") && po.idx == 0)
		if judgeHon && po.v.S.Hon.Cmp(adv) > 0 {
			s.finding("honest_overflow", po.site, fmt.Sprintf("%s output %d: honest bound %d bits exceeds the enforced bound %d bits", po.hint, po.idx, po.v.S.Hon.BitLen(), adv.BitLen()))
		}
	}
}
