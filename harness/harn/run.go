// Package harn wraps engine.Run for repository circuits: it keeps the repository's
// global per-API chip cache from growing without bound (reset at quiescent points only,
// through the verif hook).
package harn

import (
	"runtime/debug"
	"sync"
	"sync/atomic"

	"github.com/consensys/gnark/frontend"
	gl "github.com/wormhole-foundation/example-near-light-client/goldilocks"

	"verifharness/engine"
)

var (
	mu     sync.RWMutex
	weight int64
)

const threshold = 2048

// Run executes define under the engine; chip-cache resets never overlap a run.
func Run(opt engine.Options, define func(api frontend.API) error) engine.Result {
	mu.RLock()
	res := engine.Run(opt, define)
	mu.RUnlock()
	w := int64(1)
	if opt.Face == engine.Commit {
		w = 256
	}
	if atomic.AddInt64(&weight, w) >= threshold {
		mu.Lock()
		if atomic.LoadInt64(&weight) >= threshold {
			gl.VerifResetChips()
			atomic.StoreInt64(&weight, 0)
		}
		mu.Unlock()
	}
	return res
}

// Protect runs f (a compilation with a real gnark builder, or gnark's own test engine)
// while holding the same read lock as engine runs: the repository caches one chip per api
// object in a global map, and resetting that map in the middle of a compilation would make
// the repository create a second chip (with its own, smaller list of collected checks) for
// the same builder.
func Protect(f func()) {
	mu.RLock()
	defer mu.RUnlock()
	f()
}

// Big serialises memory-hungry work (compiling a whole verifier circuit takes several GB):
// at most two such jobs run at a time.
var bigSem = make(chan struct{}, 2)

func Big(f func()) {
	bigSem <- struct{}{}
	defer func() {
		<-bigSem
		debug.FreeOSMemory() // return the builder's working set before the next big job starts
	}()
	f()
}
