// Package gadget runs single-gadget circuits on the monitoring engine, on gnark's own
// test engine, and on really compiled R1CS / SCS constraint systems.
package gadget

import (
	"crypto/sha256"
	"fmt"
	"math/big"
	"sync"

	"github.com/consensys/gnark-crypto/ecc"
	"github.com/consensys/gnark/constraint"
	"github.com/consensys/gnark/constraint/solver"
	"github.com/consensys/gnark/frontend"
	"github.com/consensys/gnark/frontend/cs/r1cs"
	"github.com/consensys/gnark/frontend/cs/scs"
	"github.com/consensys/gnark/test"
	gl "github.com/wormhole-foundation/example-near-light-client/goldilocks"

	"verifharness/engine"
	"verifharness/harn"
)

// Fn is a gadget: inputs -> outputs (it may also assert internally).
type Fn func(api frontend.API, in []frontend.Variable) []frontend.Variable

// Circuit wraps a gadget; outputs are compared with the Out leaves.
type Circuit struct {
	In    []frontend.Variable
	Out   []frontend.Variable `gnark:",public"`
	fn    Fn
	pad   int  // number of dummy 32-bit range checks (commit checker needs many checks)
	dummy bool // the gadget has no output: a constant-zero output keeps gnark's schema quiet
}

func (c *Circuit) Define(api frontend.API) error {
	outs := c.fn(api, c.In)
	if c.dummy {
		outs = append(outs, 0)
	}
	if len(outs) != len(c.Out) {
		return fmt.Errorf("gadget returned %d outputs, circuit expects %d", len(outs), len(c.Out))
	}
	for i := range outs {
		api.AssertIsEqual(outs[i], c.Out[i])
	}
	if c.pad > 0 {
		chip := gl.New(api)
		for i := 0; i < c.pad; i++ {
			chip.RangeCheckWithMaxBits(gl.NewVariable(0), 32)
		}
	}
	return nil
}

func shell(fn Fn, nIn, nOut, pad int) *Circuit {
	if nOut == 0 {
		return &Circuit{In: make([]frontend.Variable, nIn), Out: []frontend.Variable{0}, fn: fn, pad: pad, dummy: true}
	}
	return &Circuit{In: make([]frontend.Variable, nIn), Out: make([]frontend.Variable, nOut), fn: fn, pad: pad}
}

// EngineEval runs the gadget on the monitoring engine and returns its outputs.
func EngineEval(opt engine.Options, fn Fn, in []*big.Int) ([]*big.Int, engine.Result) {
	var outs []*big.Int
	res := harn.Run(opt, func(api frontend.API) error {
		vin := make([]frontend.Variable, len(in))
		for i := range in {
			vin[i] = in[i]
		}
		o := fn(api, vin)
		outs = make([]*big.Int, len(o))
		for i := range o {
			outs[i] = engine.Value(o[i])
		}
		return nil
	})
	return outs, res
}

// Compiled is a gadget compiled with a real gnark builder.
type Compiled struct {
	CS     constraint.ConstraintSystem
	System string
	nIn    int
	nOut   int
	fn     Fn
	pad    int
}

// PadCommit is the number of dummy checks that makes 16 the optimal commit base width.
const PadCommit = 70000

var compileMu sync.Mutex

// Compile builds the gadget with r1cs ("groth16") or scs ("plonk") builders. wrap, if
// non-nil, wraps the builder constructor (e.g. to add a native range checker).
func Compile(system string, fn Fn, nIn, nOut, pad int, wrap func(frontend.NewBuilder) frontend.NewBuilder) (c *Compiled, err error) {
	defer func() {
		if r := recover(); r != nil {
			err = fmt.Errorf("compile panic: %v", r)
		}
	}()
	var nb frontend.NewBuilder = r1cs.NewBuilder
	if system == "scs" {
		nb = scs.NewBuilder
	}
	if wrap != nil {
		nb = wrap(nb)
	}
	var cs constraint.ConstraintSystem
	var e error
	harn.Protect(func() { cs, e = frontend.Compile(ecc.BN254.ScalarField(), nb, shell(fn, nIn, nOut, pad)) })
	if e != nil {
		return nil, e
	}
	return &Compiled{CS: cs, System: system, nIn: nIn, nOut: nOut, fn: fn, pad: pad}, nil
}

// Solve runs the real solver on (in, out).
func (c *Compiled) Solve(in, out []*big.Int, opts ...solver.Option) error {
	a := shell(c.fn, c.nIn, c.nOut, c.pad)
	for i := range in {
		a.In[i] = in[i]
	}
	for i := range out {
		a.Out[i] = out[i]
	}
	w, err := frontend.NewWitness(a, ecc.BN254.ScalarField())
	if err != nil {
		return fmt.Errorf("witness: %w", err)
	}
	return c.CS.IsSolved(w, append(SolveOpts(c.CS), opts...)...)
}

// SolveOpts: commitment-hint replacements plus panic-safe wrappers of the repository's hint
// functions. gnark runs hints in solver goroutines, where a panic (MulAddHint / InverseHint
// panic on operands outside the field) would kill the whole process; wrapped, it becomes a
// solver error, i.e. "the honest prover cannot produce a witness".
func SolveOpts(cs constraint.ConstraintSystem) []solver.Option {
	opts := CommitOverrides(cs)
	// only hints the repository registered with the solver are wrapped: an unregistered
	// hint must stay "missing" for the solver, as it is for a real prover
	registered := map[solver.HintID]bool{}
	for _, h := range solver.GetRegisteredHints() {
		registered[solver.GetHintID(h)] = true
	}
	for _, h := range []solver.Hint{gl.MulAddHint, gl.ReduceHint, gl.InverseHint, gl.SplitLimbsHint} {
		h := h
		if !registered[solver.GetHintID(h)] {
			continue
		}
		opts = append(opts, solver.OverrideHint(solver.GetHintID(h), func(m *big.Int, in []*big.Int, out []*big.Int) (err error) {
			defer func() {
				if r := recover(); r != nil {
					err = fmt.Errorf("hint panicked: %v", r)
				}
			}()
			return h(m, in, out)
		}))
	}
	return opts
}

// CommitOverrides replaces the placeholder commitment hints of a compiled system by a
// hash of the committed values (what the provers do with a Pedersen / KZG commitment).
func CommitOverrides(cs constraint.ConstraintSystem) []solver.Option {
	h := func(_ *big.Int, in []*big.Int, out []*big.Int) error {
		hs := sha256.New()
		hs.Write([]byte("verif commit"))
		for _, x := range in {
			b := x.Bytes()
			hs.Write([]byte{byte(len(b))})
			hs.Write(b)
		}
		v := new(big.Int).SetBytes(hs.Sum(nil))
		v.Mod(v, ecc.BN254.ScalarField())
		for i := range out {
			out[i].Set(v)
		}
		return nil
	}
	var opts []solver.Option
	switch t := cs.GetCommitments().(type) {
	case constraint.Groth16Commitments:
		for _, c := range t {
			opts = append(opts, solver.OverrideHint(c.HintID, h))
		}
	case constraint.PlonkCommitments:
		for _, c := range t {
			opts = append(opts, solver.OverrideHint(c.HintID, h))
		}
	}
	return opts
}

// GnarkEngine runs the gadget circuit in gnark's own test engine.
func GnarkEngine(fn Fn, in, out []*big.Int) (err error) {
	defer func() {
		if r := recover(); r != nil {
			err = fmt.Errorf("panic: %v", r)
		}
	}()
	c := shell(fn, len(in), len(out), 0)
	a := shell(fn, len(in), len(out), 0)
	for i := range in {
		a.In[i] = in[i]
	}
	for i := range out {
		a.Out[i] = out[i]
	}
	harn.Protect(func() { err = test.IsSolved(c, a, ecc.BN254.ScalarField()) })
	return err
}
