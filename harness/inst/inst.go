// Package inst loads the real proofs shipped in the repository (through the repository's
// own JSON readers) and builds circuits / restrictions from them.
package inst

import (
	"fmt"
	"math/big"
	"os"

	"github.com/consensys/gnark/frontend"
	"github.com/wormhole-foundation/example-near-light-client/types"
	"github.com/wormhole-foundation/example-near-light-client/variables"
	"github.com/wormhole-foundation/example-near-light-client/verifier"

	"verifharness/circ"
)

func RepoRoot() string {
	if r := os.Getenv("VERIF_REPO"); r != "" {
		return r
	}
	return "/repo"
}

type Files struct{ Name, Proof, VD, Common string }

// All returns the five real proofs (circuit A: 16 public inputs, circuit B: 97).
func All() []Files {
	r := RepoRoot()
	tc := r + "/gnark-plonky2-verifier/testdata/test_circuit"
	nb := r + "/near_bft_finality/proofs"
	return []Files{
		{"A_testdata", tc + "/proof_with_public_inputs.json", tc + "/verifier_only_circuit_data.json", tc + "/common_circuit_data.json"},
		{"A_testjson", r + "/test.json", tc + "/verifier_only_circuit_data.json", tc + "/common_circuit_data.json"},
		{"B_random_CGZ", nb + "/random/CGZPhFRkL3NvmGaXWBc6N7qJD519EUe6vyNpaEyDe2Ev/proof.json", nb + "/random/CGZPhFRkL3NvmGaXWBc6N7qJD519EUe6vyNpaEyDe2Ev/verifier_data.json", nb + "/random/CGZPhFRkL3NvmGaXWBc6N7qJD519EUe6vyNpaEyDe2Ev/common_data.json"},
		{"B_epoch_CbAH", nb + "/epoch/CbAHBGJ8VQot2m6KhH9PLasMgcDtkPJBfp9bjAEMJ8UK/proof.json", nb + "/epoch/CbAHBGJ8VQot2m6KhH9PLasMgcDtkPJBfp9bjAEMJ8UK/verifier_data.json", nb + "/epoch/CbAHBGJ8VQot2m6KhH9PLasMgcDtkPJBfp9bjAEMJ8UK/common_data.json"},
		{"B_epoch_4RjX", nb + "/epoch/4RjXBrNcu39wutFTuFpnRHgNqgHxLMcGBKNEQdtkSBhy/proof.json", nb + "/epoch/4RjXBrNcu39wutFTuFpnRHgNqgHxLMcGBKNEQdtkSBhy/verifier_data.json", nb + "/epoch/4RjXBrNcu39wutFTuFpnRHgNqgHxLMcGBKNEQdtkSBhy/common_data.json"},
	}
}

// Instance is one accepted (proof, verifier data, common data) triple.
type Instance struct {
	Name   string
	Files  Files
	PWI    variables.ProofWithPublicInputs
	PIs    []uint64
	VD     variables.VerifierOnlyCircuitData
	Common types.CommonCircuitData
	K      int // number of query rounds kept
}

func Load(f Files) *Instance {
	pwi, pis := variables.DeserializeProofWithPublicInputs(types.ReadProofWithPublicInputs(f.Proof))
	vd := variables.DeserializeVerifierOnlyCircuitData(types.ReadVerifierOnlyCircuitData(f.VD))
	cd := types.ReadCommonCircuitData(f.Common)
	return &Instance{Name: f.Name, Files: f, PWI: pwi, PIs: pis, VD: vd, Common: cd, K: len(pwi.Proof.OpeningProof.QueryRoundProofs)}
}

func ByName(name string) *Instance {
	for _, f := range All() {
		if f.Name == name {
			return Load(f)
		}
	}
	panic("unknown instance " + name)
}

// Clone deep-copies the assignment parts (common data is copied by value; its slices are
// re-allocated where the harness mutates them).
func (in *Instance) Clone() *Instance {
	c := *in
	c.PWI = *circ.DeepCopy(&in.PWI)
	c.VD = *circ.DeepCopy(&in.VD)
	c.Common = CopyCommon(in.Common)
	return &c
}

func CopyCommon(c types.CommonCircuitData) types.CommonCircuitData {
	n := c
	n.KIs = append([]uint64(nil), c.KIs...)
	n.GateIds = append([]string(nil), c.GateIds...)
	n.FriParams.ReductionArityBits = append([]uint64(nil), c.FriParams.ReductionArityBits...)
	return n
}

// Restrict keeps the first k query rounds and adjusts both round counts.
func (in *Instance) Restrict(k int) *Instance {
	c := in.Clone()
	c.PWI.Proof.OpeningProof.QueryRoundProofs = c.PWI.Proof.OpeningProof.QueryRoundProofs[:k]
	c.Common.Config.FriConfig.NumQueryRounds = uint64(k)
	c.Common.FriParams.Config.NumQueryRounds = uint64(k)
	c.K = k
	c.Name = fmt.Sprintf("%s/k=%d", in.Name, k)
	return c
}

// VerifierCircuit builds the plain verifier circuit with this instance as assignment.
func (in *Instance) VerifierCircuit() *verifier.VerifierCircuit {
	return &verifier.VerifierCircuit{
		PublicInputs:      in.PWI.PublicInputs,
		Proof:             in.PWI.Proof,
		VerifierData:      in.VD,
		CommonCircuitData: in.Common,
	}
}

// PackedPublicInputs computes the four 128-bit values the way cmd/web-api.go does.
func PackedPublicInputs(pis []uint64) [4]*big.Int {
	var out [4]*big.Int
	for j := 0; j < 4; j++ {
		v := new(big.Int)
		for i := 0; i < 4; i++ {
			v.Lsh(v, 32)
			v.Or(v, new(big.Int).SetUint64(pis[j*4+i]&0xFFFFFFFF))
		}
		out[j] = v
	}
	return out
}

// CircuitFixed builds the 4-public-value wrapper (requires 16 public inputs).
func (in *Instance) CircuitFixed() *verifier.CircuitFixed {
	c := &verifier.CircuitFixed{
		ProofWithPis:      in.PWI,
		VerifierData:      in.VD,
		CommonCircuitData: in.Common,
	}
	if len(in.PIs) == 16 {
		p := PackedPublicInputs(in.PIs)
		for j := 0; j < 4; j++ {
			c.PublicInputs[j] = frontend.Variable(p[j])
		}
	} else {
		for j := 0; j < 4; j++ {
			c.PublicInputs[j] = frontend.Variable(0)
		}
	}
	return c
}
