package props

import (
	"fmt"
	"math/big"
	"regexp"
	"strconv"
	"strings"

	"github.com/consensys/gnark-crypto/ecc"
	"github.com/consensys/gnark/constraint"
	"github.com/consensys/gnark/frontend"
	"github.com/consensys/gnark/frontend/cs/r1cs"
	"github.com/consensys/gnark/frontend/cs/scs"
	"github.com/wormhole-foundation/example-near-light-client/plonk/gates"
	"github.com/wormhole-foundation/example-near-light-client/variables"
	"github.com/wormhole-foundation/example-near-light-client/verifier"

	"verifharness/circ"
	"verifharness/engine"
	"verifharness/fw"
	"verifharness/gadget"
	"verifharness/harn"
	"verifharness/inst"
	"verifharness/ref"
)

// C01 — tampered or mismatched proofs are rejected by the verifier circuit.

// "structured": a difference a weakened comparison / absorption could be blind to (chosen by
// the pseudo-random value): multiples of 2^32 for Goldilocks values; chunk, limb and modulus
// sized steps (2^56, 2^64, 2^112, 2^128, 2^168, 2^192, 2^224, the Goldilocks prime) for hashes.
var c01Perts = []string{"plus1", "minus1", "rand", "swap", "zero", "structured"}

const roundPrefix = "Proof.OpeningProof.QueryRoundProofs["

// splitRoundPath: "Proof.OpeningProof.QueryRoundProofs[3].Steps[0]..." -> (3, "Steps[0]...")
func splitRoundPath(p string) (int, string, bool) {
	if !strings.HasPrefix(p, roundPrefix) {
		return 0, "", false
	}
	rest := p[len(roundPrefix):]
	i := strings.Index(rest, "]")
	j, _ := strconv.Atoi(rest[:i])
	return j, rest[i+2:], true
}

// perturb computes the new value of a leaf; ok=false when it would not change anything.
func perturb(l circ.Leaf, pert string, next *circ.Leaf, rnd *big.Int) (*big.Int, bool) {
	mod := bigR
	if l.GL {
		mod = bigP
	}
	v := l.Big()
	var n *big.Int
	switch pert {
	case "plus1":
		n = new(big.Int).Add(v, big.NewInt(1))
	case "minus1":
		n = new(big.Int).Sub(v, big.NewInt(1))
	case "rand":
		n = new(big.Int).Set(rnd)
	case "zero":
		n = big.NewInt(0)
	case "structured":
		k := int(new(big.Int).Mod(rnd, big.NewInt(1<<20)).Int64())
		var d *big.Int
		if l.GL {
			d = []*big.Int{pow2(32), new(big.Int).Sub(pow2(32), big.NewInt(1)), new(big.Int).Sub(bigP, pow2(32)), pow2(63), pow2(48)}[k%5]
		} else {
			d = []*big.Int{pow2(56), pow2(64), pow2(112), pow2(128), pow2(168), pow2(192), pow2(224), bigP, new(big.Int).Lsh(bigP, 224), new(big.Int).Lsh(bigP, 56)}[k%10]
		}
		if (k/16)%2 == 1 {
			n = new(big.Int).Sub(v, d)
		} else {
			n = new(big.Int).Add(v, d)
		}
	case "swap":
		if next == nil {
			return nil, false
		}
		n = next.Big()
	}
	n.Mod(n, mod)
	if n.Cmp(new(big.Int).Mod(v, mod)) == 0 {
		return nil, false
	}
	return n, true
}

func leafVal(b *big.Int, isGL bool) frontend.Variable {
	if isGL {
		return b.Uint64()
	}
	return b
}

// c01Container is what C01 perturbs: the proof with public inputs and the digest.
type c01Container struct {
	PWI    *variables.ProofWithPublicInputs
	Digest *frontend.Variable
}

func c01Leaves(in *inst.Instance) []circ.Leaf {
	ls := circ.Leaves(&in.PWI)
	d := circ.Leaves(&in.VD)
	for _, l := range d {
		if l.Path == "CircuitDigest" {
			l.Path = "VerifierData.CircuitDigest"
			l.Kind = "VerifierData.CircuitDigest"
			ls = append(ls, l)
		}
	}
	return ls
}

// applyPert mutates the (cloned) instance at path; returns false when trivial.
func c01Apply(ls []circ.Leaf, path, pert string, ctx *fw.Ctx, id string) (bool, string) {
	idx := -1
	for i := range ls {
		if ls[i].Path == path {
			idx = i
			break
		}
	}
	if idx < 0 {
		panic("leaf not found: " + path)
	}
	l := ls[idx]
	var next *circ.Leaf
	if idx+1 < len(ls) && ls[idx+1].Kind == l.Kind {
		next = &ls[idx+1]
	}
	mod := bigR
	if l.GL {
		mod = bigP
	}
	rnd := randBig(ctx.Rand("pert/"+id), mod)
	n, ok := perturb(l, pert, next, rnd)
	if !ok {
		return false, ""
	}
	old := l.Big()
	if pert == "swap" {
		next.Set(leafVal(new(big.Int).Mod(old, mod), l.GL))
	}
	l.Set(leafVal(n, l.GL))
	return true, fmt.Sprintf("%s -> %s", old, n)
}

// ---- circuit-description changes ----

type descChange struct {
	What string // kis, gate, selidx, groupstart, groupend, swapgates
	I    int
	Arg  string
}

var numRe = regexp.MustCompile(`[0-9]+`)

// gateParamPositions: indices (into numRe matches) of numeric parameters of a gate id.
func gateNumbers(id string) [][]int { return numRe.FindAllStringIndex(id, -1) }

func applyDesc(in *inst.Instance, rc *ref.Common, d descChange) {
	switch d.What {
	case "kis":
		v, _ := strconv.ParseUint(d.Arg, 10, 64)
		in.Common.KIs[d.I] = v
		rc.KIs[d.I] = v
	case "gate":
		in.Common.GateIds[d.I] = d.Arg
		rc.GateIDs[d.I] = d.Arg
	case "fricfg":
		// one copy of the FRI configuration changed on its own: d.Arg = "<copy>.<field>", d.I = new value
		v := uint64(d.I)
		cfg, rcfg := &in.Common.FriParams.Config, &rc.FriParamsConfig
		if strings.HasPrefix(d.Arg, "config.") {
			cfg, rcfg = &in.Common.Config.FriConfig, &rc.FriConfig
		}
		switch d.Arg[strings.Index(d.Arg, ".")+1:] {
		case "proof_of_work_bits":
			cfg.ProofOfWorkBits, rcfg.PowBits = v, int(v)
		case "num_query_rounds":
			cfg.NumQueryRounds, rcfg.NumQueryRounds = v, int(v)
		}
	case "swapgates":
		in.Common.GateIds[d.I], in.Common.GateIds[d.I+1] = in.Common.GateIds[d.I+1], in.Common.GateIds[d.I]
		rc.GateIDs[d.I], rc.GateIDs[d.I+1] = rc.GateIDs[d.I+1], rc.GateIDs[d.I]
	case "selidx", "groupstart", "groupend", "swapgroups":
		delta, _ := strconv.Atoi(d.Arg)
		switch d.What {
		case "swapgroups":
			// two whole groups exchanged in the list (selector indices keep pointing at positions)
			rc.Groups[d.I], rc.Groups[d.I+1] = rc.Groups[d.I+1], rc.Groups[d.I]
		case "selidx":
			rc.SelectorIndices[d.I] += delta
		case "groupstart":
			rc.Groups[d.I].Start += delta
		case "groupend":
			rc.Groups[d.I].End += delta
		}
		var idx, st, en []uint64
		for _, x := range rc.SelectorIndices {
			idx = append(idx, uint64(x))
		}
		for _, g := range rc.Groups {
			st = append(st, uint64(g.Start))
			en = append(en, uint64(g.End))
		}
		in.Common.SelectorsInfo = *gates.NewSelectorsInfo(idx, st, en)
	}
}

func c01DescChanges(ctx *fw.Ctx, name string) []descChange {
	in := getInst(name)
	var out []descChange
	r := ctx.Rand("desc/" + name)
	// the two copies of the FRI configuration, each changed alone (the reference decides which
	// changes the proof depends on: plonky2 reads fri_params.config for the grinding requirement
	// and the proof shape, config.fri_config for the number of query indices)
	for i := 0; i+1 < len(refCommon(in).Groups); i++ {
		out = append(out, descChange{"swapgroups", i, "0"})
	}
	nq := int(in.Common.FriParams.Config.NumQueryRounds)
	for _, cp := range []string{"params", "config"} {
		for _, b := range []int{32, 48} {
			out = append(out, descChange{"fricfg", b, cp + ".proof_of_work_bits"})
		}
		for _, q := range []int{nq - 1, nq + 1} {
			out = append(out, descChange{"fricfg", q, cp + ".num_query_rounds"})
		}
	}
	for i, k := range in.Common.KIs {
		out = append(out, descChange{"kis", i, strconv.FormatUint((k+1)%P, 10)})
		out = append(out, descChange{"kis", i, strconv.FormatUint(randGL(r), 10)})
	}
	for gi, id := range in.Common.GateIds {
		locs := gateNumbers(id)
		for k, loc := range locs {
			// skip the constant names "plonky2", "D=2", "WIDTH=12" ... : only numbers that
			// follow ": " or ", " or "[" are parameters
			if loc[0] < 2 {
				continue
			}
			pre := id[loc[0]-2 : loc[0]]
			if !(pre == ": " || pre == ", " || id[loc[0]-1] == '[') {
				continue
			}
			if ctx.Quick && strings.Contains(id, "barycentric") && k > 4 && k%5 != 0 {
				continue
			}
			n, err := strconv.ParseUint(id[loc[0]:loc[1]], 10, 64)
			if err != nil {
				continue
			}
			for _, dlt := range []int64{1, -1} {
				if dlt < 0 && n == 0 {
					continue
				}
				nv := uint64(int64(n) + dlt)
				out = append(out, descChange{"gate", gi, id[:loc[0]] + strconv.FormatUint(nv, 10) + id[loc[1]:]})
			}
		}
		if gi+1 < len(in.Common.GateIds) {
			out = append(out, descChange{"swapgates", gi, ""})
		}
	}
	rc := refCommon(in)
	for i := range rc.SelectorIndices {
		out = append(out, descChange{"selidx", i, "1"}, descChange{"selidx", i, "-1"})
	}
	for i := range rc.Groups {
		for _, w := range []string{"groupstart", "groupend"} {
			out = append(out, descChange{w, i, "1"}, descChange{w, i, "-1"})
		}
	}
	return out
}

func init() {
	register("C01", func() *fw.Prop {
		return &fw.Prop{
			ID:    "C01",
			Level: "exploration",
			Rule:  "cases = (accepted instance, leaf position of proof/public inputs/circuit digest found by reflection, perturbation in {+1,-1,random,swap with next leaf of the same list,zero}) executed on the real circuit code: leaves outside the query rounds through VerifierCircuit.Define (whole circuit), leaves inside query round j through the repository's verifyQueryRound for round j alone with the transcript recorded from the unperturbed run (xcheck cases run both and require equal verdicts, at every round index); plus single-constant circuit-description changes (k_is, gate id parameters, gate order, selector indices / group bounds) judged only when the independent reference rejects; plus proof/verifier-data cross pairings. Non-trivial = the perturbed assignment really differs from the accepted one; distinct by (instance, leaf path, perturbation). Also: 'structured' perturbations (chunk / limb / modulus sized steps), the same tampering through CircuitFixed, the whole 28-round verifier compiled with gnark's R1CS (thorough: SCS) builder with honest and tampered witnesses solved by the real solver, description changes decided by the reference (coset shifts, gate parameters, selector indices / group bounds / swapped groups, each copy of the FRI configuration changed alone), a tampered proof after a valid one on one chip, and forged query-index decompositions.",
			Assumptions: []string{
				"acceptance is evaluated by the monitoring engine (Native face; sampled under Plain and Commit faces) running the repository's Define code; engine/gnark agreement is sampled in C02",
				"query-round isolation is valid because round proofs are not absorbed into the transcript; monitored by the xcheck cases",
				"the native reference (validated on KATs and all five real proofs) is the judge for circuit-description changes only",
			},
			MinEvents: 100000,
			Setup: func(ctx *fw.Ctx) error {
				engine.SetRealHints(false) // large must-reject sweep: native fast path for honest hints
				return refSelfTest(true)
			},
			Gen: func(ctx *fw.Ctx) []fw.Case {
				var cs []fw.Case
				for _, name := range instNames(ctx.Quick) {
					in := getInst(name)
					ls := c01Leaves(in)
					r := ctx.Rand("sel/" + name)
					seenKind := map[string]int{}
					nRounds := len(in.PWI.Proof.OpeningProof.QueryRoundProofs)
					roundSeen := map[int]bool{}
					for _, l := range ls {
						j, rel, inRound := splitRoundPath(l.Path)
						take := !ctx.Quick
						if ctx.Quick {
							k := l.Kind
							seenKind[k]++
							// first position of each kind, plus a seeded sample
							if seenKind[k] == 1 || r.Intn(400) == 0 {
								take = true
							}
						}
						if !take {
							continue
						}
						if !inRound && name[0] == 'A' && seenKind[l.Kind] <= 1 {
							// the deployed 4-public-value wrapper must reject the same tampering
							cs = append(cs, fw.Case{ID: fmt.Sprintf("fixed/%s/%s/plus1", name, l.Path), Kind: "wc", P: map[string]any{"inst": name, "path": l.Path, "pert": "plus1", "leafkind": l.Kind, "wrapper": "fixed"}})
						}
						for _, pert := range c01Perts {
							id := fmt.Sprintf("%s/%s/%s", name, l.Path, pert)
							if inRound {
								cs = append(cs, fw.Case{ID: id, Kind: "round", P: map[string]any{"inst": name, "j": j, "rel": rel, "path": l.Path, "pert": pert, "leafkind": l.Kind}})
							} else {
								cs = append(cs, fw.Case{ID: id, Kind: "wc", P: map[string]any{"inst": name, "path": l.Path, "pert": pert, "leafkind": l.Kind}})
							}
						}
						if inRound {
							roundSeen[j] = true
						}
					}
					// decomposition monitor: every round index, several leaf kinds, whole circuit too
					perRound := 1
					if !ctx.Quick {
						perRound = 6
					}
					var roundLeaves = map[int][]circ.Leaf{}
					for _, l := range ls {
						if j, _, ok := splitRoundPath(l.Path); ok {
							roundLeaves[j] = append(roundLeaves[j], l)
						}
					}
					for j := 0; j < nRounds; j++ {
						for k := 0; k < perRound; k++ {
							l := roundLeaves[j][r.Intn(len(roundLeaves[j]))]
							pert := []string{"plus1", "minus1", "rand", "structured"}[r.Intn(4)]
							_, rel, _ := splitRoundPath(l.Path)
							cs = append(cs, fw.Case{ID: fmt.Sprintf("xcheck/%s/%s/%s", name, l.Path, pert), Kind: "xcheck", P: map[string]any{"inst": name, "j": j, "rel": rel, "path": l.Path, "pert": pert, "leafkind": l.Kind}})
						}
					}
					// slow faces on a sample of whole-circuit cases
					nslow := 1
					if !ctx.Quick {
						nslow = 4
					}
					for k := 0; k < nslow; k++ {
						for _, face := range []string{"plain", "commit"} {
							l := ls[r.Intn(len(ls))]
							cs = append(cs, fw.Case{ID: fmt.Sprintf("%s/%s/%s/plus1", face, name, l.Path), Kind: "wc", P: map[string]any{"inst": name, "path": l.Path, "pert": "plus1", "leafkind": l.Kind, "face": face}})
						}
					}
					// description changes
					ds := c01DescChanges(ctx, name)
					for i, d := range ds {
						structural := d.What == "selidx" || d.What == "groupstart" || d.What == "groupend" || d.What == "swapgates" || d.What == "fricfg" || d.What == "swapgroups"
						if ctx.Quick && !(i%9 == 0 || d.What != "kis" && i%4 == 0 || structural && name == "A_testdata") {
							continue
						}
						if ctx.Quick && name != "A_testdata" && i%3 != 0 {
							continue
						}
						cs = append(cs, fw.Case{ID: fmt.Sprintf("desc/%s/%s/%d/%s", name, d.What, d.I, trunc(d.Arg, 40)+fmt.Sprint(len(d.Arg))), Kind: "desc", P: map[string]any{"inst": name, "what": d.What, "i": d.I, "arg": d.Arg}})
					}
				}
				// the whole verifier (all query rounds) compiled with gnark's real R1CS builder and
				// solved with the real solver: honest witness + tampered witnesses
				ncomp := 10
				cinst := []string{"A_testdata"}
				if !ctx.Quick {
					ncomp = 150
					cinst = []string{"A_testdata", "B_random_CGZ"}
				}
				for _, n := range cinst {
					systems := []string{"r1cs"}
					if !ctx.Quick && n == "A_testdata" {
						systems = []string{"r1cs", "scs"}
					}
					for _, sys := range systems {
						cs = append(cs, fw.Case{ID: "compiled/" + sys + "/" + n + "/honest", Kind: "compiled", P: map[string]any{"inst": n, "i": -1, "sys": sys}})
						for i := 0; i < ncomp; i++ {
							cs = append(cs, fw.Case{ID: fmt.Sprintf("compiled/%s/%s/tamper/%d", sys, n, i), Kind: "compiled", P: map[string]any{"inst": n, "i": i, "sys": sys}})
						}
					}
				}
				// another round's (valid) openings presented for round j, with a forged bit decomposition of
				// challenge j: the queried index must be bound to the challenge
				nsw := 8
				if !ctx.Quick {
					nsw = 120
				}
				for _, n := range instNames(ctx.Quick) {
					for i := 0; i < nsw; i++ {
						cs = append(cs, fw.Case{ID: fmt.Sprintf("roundswap/%s/%d", n, i), Kind: "roundswap", P: map[string]any{"inst": n, "i": i}})
					}
				}
				// gnark's own test engine on tampered k=1 instances: its verdict must agree with the monitoring engine's
				ng := 2
				if !ctx.Quick {
					ng = 40
				}
				for i := 0; i < ng; i++ {
					cs = append(cs, fw.Case{ID: fmt.Sprintf("gnarkengine/A_testdata/%d", i), Kind: "gnarkengine", P: map[string]any{"inst": "A_testdata", "i": i}})
				}
				// a tampered proof verified by a VerifierChip that has just verified valid ones
				nseq := 6
				if !ctx.Quick {
					nseq = 60
				}
				for i := 0; i < nseq; i++ {
					cs = append(cs, fw.Case{ID: fmt.Sprintf("sequence/A_testdata/%d", i), Kind: "sequence", P: map[string]any{"inst": "A_testdata", "i": i}})
				}
				// cross pairings
				pairs := [][2]string{{"A_testdata", "B_random_CGZ"}, {"B_random_CGZ", "A_testdata"}, {"B_epoch_CbAH", "A_testdata"}}
				for _, p := range pairs {
					for _, what := range []string{"vd", "digest", "cap"} {
						cs = append(cs, fw.Case{ID: fmt.Sprintf("pair/%s+%s/%s", p[0], p[1], what), Kind: "pair", P: map[string]any{"inst": p[0], "other": p[1], "what": what}})
					}
				}
				return cs
			},
			Exec: func(ctx *fw.Ctx, c fw.Case) fw.Outcome {
				var o fw.Outcome
				name := c.Str("inst")
				face := engine.Native
				if f := c.Str("face"); f != "" {
					face = faceByName(f)
				}
				opt := engine.Options{Face: face}
				mustReject := func(res engine.Result, what string) (fw.Outcome, bool) {
					o.Events += events(res)
					if io, bad := inconclusiveIf(res); bad {
						return io, true
					}
					if res.Verdict == engine.Accept {
						return fw.Violate("accepts_tampered:"+what, fmt.Sprintf("case %s: circuit ACCEPTED", c.ID)), true
					}
					o.Inc("verdict_" + res.Verdict.String())
					o.Inc("site[" + c.Str("leafkind") + "]=" + res.Kind + "@" + shortSite(res.Site))
					return fw.Outcome{}, false
				}
				switch c.Kind {
				case "wc":
					in := getInst(name).Clone()
					ls := c01Leaves(in)
					changed, desc := c01Apply(ls, c.Str("path"), c.Str("pert"), ctx, c.ID)
					if !changed {
						return fw.Outcome{Trivial: true}
					}
					var res engine.Result
					if c.Str("wrapper") == "fixed" {
						res = harnRunOpt(opt, in.CircuitFixed().Define)
					} else {
						res = runVerifier(in, opt)
					}
					if v, bad := mustReject(res, c.Str("leafkind")+":"+c.Str("pert")); bad {
						return v
					}
					if face == engine.Native {
						if err := refVerifyInst(in); err == nil {
							return fw.Inconcl("reference accepts a tampered proof the circuit rejects: " + c.ID)
						}
						o.Inc("ref_agrees_reject")
					}
					o.Sample = map[string]any{"change": desc, "verdict": resStr(res)}
				case "round", "xcheck":
					rc, err := getRoundCtx(name)
					if err != nil {
						return fw.Inconcl(err.Error())
					}
					j := c.Int("j")
					round := circ.DeepCopy(&rc.in.PWI.Proof.OpeningProof.QueryRoundProofs[j])
					ls := circ.Leaves(round)
					changed, desc := c01Apply(ls, c.Str("rel"), c.Str("pert"), ctx, c.ID)
					if !changed {
						return fw.Outcome{Trivial: true}
					}
					res := rc.runRound(j, round, opt)
					if v, bad := mustReject(res, c.Str("leafkind")+":"+c.Str("pert")); bad {
						return v
					}
					if err := rc.refRound(j, round); err == nil {
						return fw.Inconcl("reference accepts a tampered round the circuit rejects: " + c.ID)
					}
					o.Inc("ref_agrees_reject")
					if c.Kind == "xcheck" {
						in := getInst(name).Clone()
						in.PWI.Proof.OpeningProof.QueryRoundProofs[j] = *round
						res2 := runVerifier(in, opt)
						if res2.Verdict == engine.Accept {
							return fw.Violate("accepts_tampered_wholecircuit:"+c.Str("leafkind"), fmt.Sprintf("case %s: the isolated round rejects (%s) but the whole circuit ACCEPTS: round %d is not (fully) checked", c.ID, resStr(res), j))
						}
						o.Events += events(res2)
						o.Inc("xcheck_whole_circuit_agrees")
						o.Inc(fmt.Sprintf("xcheck_round_%02d", j))
					}
					o.Sample = map[string]any{"change": desc, "verdict": resStr(res)}
				case "desc":
					in := getInst(name).Clone()
					rcm := refCommon(in)
					d := descChange{c.Str("what"), c.Int("i"), c.Str("arg")}
					applyDesc(in, rcm, d)
					p, _ := toRefProof(&in.PWI)
					refErr := ref.Verify(p, toRefVD(&in.VD), rcm)
					res := runVerifier(in, opt)
					o.Events += events(res)
					if io, bad := inconclusiveIf(res); bad {
						return io
					}
					if refErr == nil {
						o.Inc("desc_neutral_ref_accepts")
						o.Trivial = true
						return o
					}
					if res.Verdict == engine.Accept {
						return fw.Violate("accepts_changed_description:"+d.What, fmt.Sprintf("case %s: reference rejects (%v) but the circuit ACCEPTS", c.ID, refErr))
					}
					o.Inc("desc_rejected_" + d.What + "_" + res.Verdict.String())
					o.Sample = map[string]any{"change": d.What, "i": d.I, "ref": trunc(refErr.Error(), 60), "verdict": resStr(res)}
				case "roundswap":
					rc, err := getRoundCtx(name)
					if err != nil {
						return fw.Inconcl(err.Error())
					}
					r := ctx.Rand(c.ID)
					n := len(rc.in.PWI.Proof.OpeningProof.QueryRoundProofs)
					j := r.Intn(n)
					i := (j + 1 + r.Intn(n-1)) % n
					lde := rc.refPrm.LdeBits()
					idxI := rc.refCh.QueryIndicesRaw[i] % (1 << uint(lde))
					idxJ := rc.refCh.QueryIndicesRaw[j] % (1 << uint(lde))
					if idxI == idxJ {
						return fw.Outcome{Trivial: true}
					}
					round := circ.DeepCopy(&rc.in.PWI.Proof.OpeningProof.QueryRoundProofs[i])
					pol := idxPolicy{x: new(big.Int).SetUint64(rc.refCh.QueryIndicesRaw[j]), target: idxI, lde: lde}
					res := rc.runRound(j, round, engine.Options{Face: face, Policy: pol})
					if v, bad := mustReject(res, "roundswap"); bad {
						return v
					}
					o.Inc("swapped_rounds_rejected")
					o.Sample = map[string]any{"round": j, "openings_of_round": i, "index_j": idxJ, "index_i": idxI, "verdict": resStr(res)}
				case "gnarkengine":
					t := getInst(name).Restrict(1)
					ls := c01Leaves(t)
					r := ctx.Rand(c.ID)
					l := ls[r.Intn(len(ls))]
					pert := c01Perts[r.Intn(len(c01Perts))]
					changed, desc := c01Apply(ls, l.Path, pert, ctx, c.ID)
					if !changed {
						return fw.Outcome{Trivial: true}
					}
					gerr := gnarkIsSolved(t.VerifierCircuit(), t.VerifierCircuit())
					res := runVerifier(t, engine.Options{Face: engine.Commit})
					o.Events += events(res)
					if gerr == nil {
						return fw.Violate("gnark_engine_accepts_tampered:"+l.Kind+":"+pert, fmt.Sprintf("case %s: %s %s accepted by gnark's test engine (monitoring engine: %s)", c.ID, l.Path, desc, resStr(res)))
					}
					if res.Verdict == engine.Accept {
						return fw.Violate("accepts_tampered:"+l.Kind+":"+pert, fmt.Sprintf("case %s: monitoring engine (commit face) ACCEPTED while gnark's test engine rejects", c.ID))
					}
					o.Inc("gnark_engine_and_monitoring_engine_agree_reject")
					o.Sample = map[string]any{"leaf": l.Path, "change": desc, "gnark": trunc(gerr.Error(), 60), "engine": resStr(res)}
				case "sequence":
					first := getInst(name).Restrict(1)
					second := getInst("A_testjson").Restrict(1)
					t := second.Clone()
					ls := c01Leaves(t)
					r := ctx.Rand(c.ID)
					l := ls[r.Intn(len(ls))]
					pert := []string{"plus1", "minus1", "rand", "structured"}[r.Intn(4)]
					changed, desc := c01Apply(ls, l.Path, pert, ctx, c.ID)
					if !changed {
						return fw.Outcome{Trivial: true}
					}
					res := harnRunOpt(opt, func(api frontend.API) error {
						vc := verifier.NewVerifierChip(api, first.Common)
						a := first.Clone()
						vc.Verify(a.PWI.Proof, a.PWI.PublicInputs, a.VD)
						vc.Verify(t.PWI.Proof, t.PWI.PublicInputs, t.VD)
						return nil
					})
					if v, bad := mustReject(res, "sequence:"+l.Kind+":"+pert); bad {
						return v
					}
					o.Inc("tampered_second_proof_rejected")
					o.Sample = map[string]any{"second_proof_change": l.Path + " " + desc, "verdict": resStr(res)}
				case "compiled":
					in := getInst(name) // the full instance: all query rounds
					sys := c.Str("sys")
					cp := ctx.Once("bigcs/"+sys+"/"+name, func() any {
						var cs constraint.ConstraintSystem
						var err error
						var nb frontend.NewBuilder = r1cs.NewBuilder
						if sys == "scs" {
							nb = scs.NewBuilder
						}
						harn.Big(func() {
							harn.Protect(func() {
								cs, err = frontend.Compile(ecc.BN254.ScalarField(), nb, in.Clone().VerifierCircuit())
							})
						})
						if err != nil {
							return err
						}
						return cs
					})
					ccs, ok := cp.(constraint.ConstraintSystem)
					if !ok {
						return fw.Inconcl(fmt.Sprintf("compiling the whole verifier: %v", cp))
					}
					solve := func(i *inst.Instance) error {
						w, err := frontend.NewWitness(i.VerifierCircuit(), ecc.BN254.ScalarField())
						if err != nil {
							return err
						}
						return ccs.IsSolved(w, gadget.SolveOpts(ccs)...)
					}
					if c.Int("i") < 0 {
						if err := solve(in.Clone()); err != nil {
							return fw.Violate("compiled_"+sys+"_rejects_valid_proof", fmt.Sprintf("%s (all %d rounds): %v", name, in.K, trunc(err.Error(), 200)))
						}
						res := runVerifier(in.Clone(), engine.Options{Face: engine.Commit})
						if !res.AcceptedHonestly() {
							return fw.Inconcl("engine (commit face) rejects the valid instance: " + resStr(res))
						}
						o.Events += events(res)
						o.Add("compiled_"+sys+"_constraints", ccs.GetNbConstraints())
						o.Inc("compiled_" + sys + "_honest_solved")
						o.Sample = map[string]any{"constraints": ccs.GetNbConstraints(), "honest": "solved"}
						return o
					}
					t := in.Clone()
					ls := c01Leaves(t)
					r := ctx.Rand(c.ID)
					l := ls[r.Intn(len(ls))]
					pert := c01Perts[r.Intn(len(c01Perts))]
					changed, desc := c01Apply(ls, l.Path, pert, ctx, c.ID)
					if !changed {
						return fw.Outcome{Trivial: true}
					}
					err := solve(t)
					res := runVerifier(t, engine.Options{Face: engine.Native})
					o.Events += events(res) + 1
					if err == nil {
						return fw.Violate("compiled_"+sys+"_accepts_tampered:"+l.Kind+":"+pert, fmt.Sprintf("case %s: %s %s: gnark's %s solver found the tampered witness satisfying (engine: %s)", c.ID, l.Path, desc, sys, resStr(res)))
					}
					if res.Verdict == engine.Accept {
						return fw.Violate("accepts_tampered:"+l.Kind+":"+pert, fmt.Sprintf("case %s: engine ACCEPTED while the compiled system rejects", c.ID))
					}
					o.Inc("compiled_" + sys + "_and_engine_agree_reject")
					o.Sample = map[string]any{"leaf": l.Path, "change": desc, "solver": trunc(err.Error(), 60), "engine": resStr(res)}
				case "pair":
					in := getInst(name).Clone()
					other := getInst(c.Str("other"))
					switch c.Str("what") {
					case "vd":
						in.VD = *circ.DeepCopy(&other.VD)
					case "digest":
						in.VD.CircuitDigest = other.VD.CircuitDigest
					case "cap":
						in.VD.ConstantSigmasCap = circ.DeepCopy(&other.VD).ConstantSigmasCap
					}
					res := runVerifier(in, opt)
					if v, bad := mustReject(res, "pair:"+c.Str("what")); bad {
						return v
					}
					o.Sample = map[string]any{"pair": c.ID, "verdict": resStr(res)}
				}
				return o
			},
		}
	})
}
