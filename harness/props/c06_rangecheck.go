package props

import (
	"fmt"
	"math/big"
	"sort"
	"sync"

	"github.com/consensys/gnark/constraint/solver"
	"github.com/consensys/gnark/frontend"
	stdbits "github.com/consensys/gnark/std/math/bits"
	"github.com/consensys/gnark/std/rangecheck"
	gl "github.com/wormhole-foundation/example-near-light-client/goldilocks"

	"verifharness/engine"
	"verifharness/fw"
	"verifharness/gadget"
)

// C06 — range checks enforce exact ranges in every backend configuration.

// nativeBuilder wraps a real gnark builder and range-checks natively (frontend.Rangechecker),
// enforcing Check by a bit decomposition on the wrapped builder.
type nativeBuilder struct{ frontend.Builder }

func (b nativeBuilder) Check(v frontend.Variable, n int) {
	stdbits.ToBinary(b.Builder, v, stdbits.WithNbDigits(n))
}

type kvStore interface {
	SetKeyValue(key, value any)
	GetKeyValue(key any) any
}

func (b nativeBuilder) SetKeyValue(key, value any) { b.Builder.(kvStore).SetKeyValue(key, value) }
func (b nativeBuilder) GetKeyValue(key any) any    { return b.Builder.(kvStore).GetKeyValue(key) }

func wrapNative(nb frontend.NewBuilder) frontend.NewBuilder {
	return func(f *big.Int, c frontend.CompileConfig) (frontend.Builder, error) {
		b, err := nb(f, c)
		if err != nil {
			return nil, err
		}
		return nativeBuilder{b}, nil
	}
}

func c06GLGadget(api frontend.API, in []frontend.Variable) []frontend.Variable {
	gl.New(api).RangeCheck(gl.NewVariable(in[0]))
	return nil
}

// c06QEGadget: the extension-field range check (both coordinates must be canonical);
// the value under test sits in coordinate k, the other coordinate is a fixed canonical value.
func c06QEGadget(k int, other ...uint64) gadget.Fn {
	o := uint64(7)
	if len(other) > 0 {
		o = other[0]
	}
	return func(api frontend.API, in []frontend.Variable) []frontend.Variable {
		e := gl.QuadraticExtensionVariable{gl.NewVariable(o), gl.NewVariable(o)}
		e[k] = gl.NewVariable(in[0])
		gl.New(api).RangeCheckQE(e)
		return nil
	}
}

// c06DoubleGadget: two checks of the same variable, the wider one first; the accepted set is
// that of the narrower check.
func c06DoubleGadget(api frontend.API, in []frontend.Variable) []frontend.Variable {
	g := gl.New(api)
	x := gl.NewVariable(in[0])
	g.RangeCheckWithMaxBits(x, 64)
	g.RangeCheckWithMaxBits(x, 32)
	g.RangeCheckWithMaxBits(x, 48)
	return nil
}

func c06BitsGadget(n int) gadget.Fn {
	return func(api frontend.API, in []frontend.Variable) []frontend.Variable {
		gl.New(api).RangeCheckWithMaxBits(gl.NewVariable(in[0]), uint64(n))
		return nil
	}
}

// c06Values: boundary set around 0, 2^32, 2^64-2^32, p, 2^64, 2^n, r plus seeded random.
func c06Values(ctx *fw.Ctx, stream string, n int, nrand int) []*big.Int {
	var vs []*big.Int
	add := func(b *big.Int) {
		if b.Sign() >= 0 && b.Cmp(bigR) < 0 {
			vs = append(vs, b)
		}
	}
	for _, u := range []uint64{0, 1, 2, 1<<32 - 1, 1 << 32, 1<<32 + 1, P - (1 << 32), 1<<64 - 1<<32 - 1, 1<<64 - 1<<32, P - 1, P, P + 1, P + 2, 1<<64 - 1} {
		add(bu(u))
	}
	add(new(big.Int).Sub(pow2(63), big.NewInt(1)))
	add(pow2(63))
	add(new(big.Int).Add(new(big.Int).Lsh(big.NewInt(0x7FFFFFFF), 32), big.NewInt(1)))
	add(new(big.Int).Lsh(big.NewInt(0x7FFFFFFF), 32))
	add(pow2(64))
	add(new(big.Int).Add(pow2(64), big.NewInt(1)))
	add(new(big.Int).Add(pow2(64), bigP))
	add(pow2(128))
	add(new(big.Int).Sub(bigR, big.NewInt(1)))
	add(new(big.Int).Sub(bigR, bigP))
	if n > 0 {
		for _, d := range []int64{-2, -1, 0, 1} {
			add(new(big.Int).Add(pow2(uint(n)), big.NewInt(d)))
		}
		if n > 1 {
			add(pow2(uint(n - 1)))
		}
		add(new(big.Int).Lsh(big.NewInt(3), uint(n-1)))
		add(new(big.Int).Add(pow2(uint(n)), pow2(16)))
		add(pow2(uint(n + 16)))
	}
	r := ctx.Rand(stream)
	for i := 0; i < nrand; i++ {
		switch i % 4 {
		case 0:
			add(bu(randGL(r)))
		case 1:
			add(bu(r.Uint64()))
		case 2:
			w := 64
			if n > 0 {
				w = n
			}
			add(randBig(r, pow2(uint(w))))
		case 3:
			w := 254
			if n > 0 && n < 250 {
				w = n + 1 + r.Intn(4)
			}
			add(randBig(r, pow2(uint(w))))
		}
	}
	// dedupe
	sort.Slice(vs, func(i, j int) bool { return vs[i].Cmp(vs[j]) < 0 })
	out := vs[:0]
	for i, v := range vs {
		if i == 0 || v.Cmp(vs[i-1]) != 0 {
			out = append(out, v)
		}
	}
	return out
}

func c06InRange(v *big.Int, n int) bool {
	if n == 0 {
		return v.Cmp(bigP) < 0
	}
	return v.BitLen() <= n
}

// limb candidates a cheating prover can supply for SplitLimbs on x
func c06LimbCandidates(x *big.Int) [][]*big.Int {
	mask := big.NewInt(0xFFFFFFFF)
	hi := new(big.Int).Rsh(x, 32)
	lo := new(big.Int).And(x, mask)
	c := [][]*big.Int{{hi, lo}}
	if hi.Sign() > 0 {
		c = append(c, []*big.Int{new(big.Int).Sub(hi, big.NewInt(1)), new(big.Int).Add(lo, pow2(32))})
	}
	c = append(c, []*big.Int{big.NewInt(0), new(big.Int).Set(x)})
	// the canonical limbs of x mod p (an honest-looking pair)
	xr := new(big.Int).Mod(x, bigP)
	c = append(c, []*big.Int{new(big.Int).Rsh(xr, 32), new(big.Int).And(xr, mask)})
	return c
}

// limbPolicy substitutes the given limbs at every SplitLimbsHint call whose input is x.
type limbPolicy struct {
	x    *big.Int
	outs []*big.Int
}

func (p limbPolicy) NeedSite() bool { return false }
func (p limbPolicy) Substitute(ev *engine.HintEvent) ([]*big.Int, bool) {
	if ev.Name == "SplitLimbsHint" && ev.Inputs[0].Cmp(p.x) == 0 {
		return p.outs, true
	}
	return nil, false
}

// bitsPolicy: adversarial bit decomposition: the first "bit" carries the whole value.
type bitsPolicy struct{ x *big.Int }

func (p bitsPolicy) NeedSite() bool { return false }
func (p bitsPolicy) Substitute(ev *engine.HintEvent) ([]*big.Int, bool) {
	if (ev.Name != "nBits" && ev.Name != "NBits") || ev.Inputs[0].Cmp(p.x) != 0 {
		return nil, false
	}
	out := make([]*big.Int, len(ev.Outputs))
	for i := range out {
		out[i] = new(big.Int)
	}
	out[0].Set(p.x)
	return out, true
}

// decompPolicy: adversarial DecomposeHint (commit checker): honest limbs except that the
// top limb carries everything that does not fit.
type decompPolicy struct{ x *big.Int }

func (p decompPolicy) NeedSite() bool { return false }
func (p decompPolicy) Substitute(ev *engine.HintEvent) ([]*big.Int, bool) {
	if ev.Name != "DecomposeHint" || ev.Inputs[2].Cmp(p.x) != 0 {
		return nil, false
	}
	return overflowDecompose(ev.Inputs, len(ev.Outputs)), true
}

func overflowDecompose(in []*big.Int, n int) []*big.Int {
	limb := uint(in[1].Uint64())
	out := make([]*big.Int, n)
	tmp := new(big.Int).Set(in[2])
	base := pow2(limb)
	for i := 0; i < n; i++ {
		if i == n-1 {
			out[i] = new(big.Int).Set(tmp)
		} else {
			out[i] = new(big.Int).Mod(tmp, base)
			tmp.Rsh(tmp, limb)
		}
	}
	return out
}

// engine accept-set of one (face, gadget, value): existential over hint candidates.
func c06EngineAccepts(face engine.Face, pad bool, fn gadget.Fn, v *big.Int, isGL bool, o *fw.Outcome) (bool, string, bool) {
	run := func(pol engine.HintPolicy) engine.Result {
		var res engine.Result
		if pad {
			opt := engine.Options{Face: engine.Commit, Policy: pol}
			res = harnRunCommitPaddedOpt(opt, func(api frontend.API) { fn(api, []frontend.Variable{v}) }, gadget.PadCommit)
		} else {
			_, res = gadget.EngineEval(engine.Options{Face: face, Policy: pol}, fn, []*big.Int{v})
			if res.Verdict == engine.Reject {
				// the same value as a circuit CONSTANT (builders and this engine report constants;
				// a constant must be checked like any other operand)
				rc := harnRunOpt(engine.Options{Face: face, Policy: pol}, func(api frontend.API) error {
					fn(api, []frontend.Variable{v})
					return nil
				})
				o.Events += events(rc)
				if rc.Verdict == engine.Accept {
					rc.Msg = "as a constant operand"
					return rc
				}
			}
		}
		o.Events += events(res)
		return res
	}
	res := run(nil)
	if res.Verdict == engine.Inconclusive {
		return false, res.Msg, true
	}
	if pad && res.Verdict == engine.Reject {
		// the same check as the LAST collected one (padding first)
		r2 := harnRunCommitPaddedFirst(engine.Options{Face: engine.Commit}, func(api frontend.API) { fn(api, []frontend.Variable{v}) }, gadget.PadCommit)
		o.Events += events(r2)
		if r2.Verdict == engine.Accept {
			return true, "accepted when the check is the last one collected", false
		}
		if isGL {
			for i, cand := range c06LimbCandidates(v) {
				r3 := harnRunCommitPaddedFirst(engine.Options{Face: engine.Commit, Policy: limbPolicy{v, cand}}, func(api frontend.API) { fn(api, []frontend.Variable{v}) }, gadget.PadCommit)
				if r3.Verdict == engine.Accept {
					return true, fmt.Sprintf("limb candidate %d accepted when the check is the last one collected", i), false
				}
			}
		}
	}
	if res.Verdict == engine.Accept {
		return true, "honest", false
	}
	if res.Verdict == engine.Refuse {
		return false, "REFUSE:" + res.Msg, false
	}
	if isGL {
		for i, cand := range c06LimbCandidates(v) {
			r2 := run(limbPolicy{v, cand})
			if r2.Verdict == engine.Accept {
				return true, fmt.Sprintf("limb candidate %d (%s,%s)", i, cand[0], cand[1]), false
			}
		}
	}
	if r2 := run(bitsPolicy{v}); r2.Verdict == engine.Accept {
		return true, "non-boolean first digit in the bit-decomposition hint", false
	}
	if isGL {
		// limbs (hi-1, lo+2^32) together with a non-boolean decomposition of the oversized low limb
		hi := new(big.Int).Rsh(v, 32)
		lo := new(big.Int).And(v, big.NewInt(0xFFFFFFFF))
		if hi.Sign() > 0 {
			lo2 := new(big.Int).Add(lo, pow2(32))
			r3 := run(multiPolicy{limbPolicy{v, []*big.Int{new(big.Int).Sub(hi, big.NewInt(1)), lo2}}, bitsPolicy{lo2}})
			if r3.Verdict == engine.Accept {
				return true, "borrowed limbs with a non-boolean digit for the oversized limb", false
			}
		}
	}
	if pad {
		r2 := run(decompPolicy{v})
		if r2.Verdict == engine.Accept {
			return true, "overflowing top limb in DecomposeHint", false
		}
	}
	return false, resStr(res), false
}

// multiPolicy tries several policies in order.
type multiPolicy []engine.HintPolicy

func (m multiPolicy) NeedSite() bool { return false }
func (m multiPolicy) Substitute(ev *engine.HintEvent) ([]*big.Int, bool) {
	for _, p := range m {
		if o, ok := p.Substitute(ev); ok {
			return o, true
		}
	}
	return nil, false
}

func harnRunCommitPaddedOpt(opt engine.Options, fn func(api frontend.API), pad int) engine.Result {
	return harnRunOpt(opt, func(api frontend.API) error {
		fn(api)
		chip := gl.New(api)
		for i := 0; i < pad; i++ {
			chip.RangeCheckWithMaxBits(gl.NewVariable(0), 32)
		}
		return nil
	})
}

// harnRunCommitPaddedFirst pads BEFORE the gadget, so the gadget's checks are the last
// ones the chip collects.
func harnRunCommitPaddedFirst(opt engine.Options, fn func(api frontend.API), pad int) engine.Result {
	return harnRunOpt(opt, func(api frontend.API) error {
		chip := gl.New(api)
		for i := 0; i < pad; i++ {
			chip.RangeCheckWithMaxBits(gl.NewVariable(0), 32)
		}
		fn(api)
		return nil
	})
}

// compiled-system accept-set: existential over hint overrides on the real solver.
func c06SolverAccepts(cc *gadget.Compiled, v *big.Int, isGL bool, mech string) (bool, string) {
	if err := cc.Solve([]*big.Int{v}, nil); err == nil {
		return true, "honest"
	}
	if isGL {
		for i, cand := range c06LimbCandidates(v) {
			cand := cand
			h := func(_ *big.Int, in []*big.Int, out []*big.Int) error {
				if in[0].Cmp(v) == 0 {
					out[0].Set(cand[0])
					out[1].Set(cand[1])
					return nil
				}
				return gl.SplitLimbsHint(nil, in, out)
			}
			if err := cc.Solve([]*big.Int{v}, nil, solver.OverrideHint(solver.GetHintID(gl.SplitLimbsHint), h)); err == nil {
				return true, fmt.Sprintf("limb candidate %d (%s,%s)", i, cand[0], cand[1])
			}
		}
	}
	nb := stdbits.GetHints()[1]
	bitsOv := func(target *big.Int) solver.Option {
		return solver.OverrideHint(solver.GetHintID(nb), func(m *big.Int, in []*big.Int, out []*big.Int) error {
			if in[0].Cmp(target) == 0 {
				for i := range out {
					out[i].SetUint64(0)
				}
				out[0].Set(target)
				return nil
			}
			return nb(m, in, out)
		})
	}
	if err := cc.Solve([]*big.Int{v}, nil, bitsOv(v)); err == nil {
		return true, "non-boolean first digit in the bit-decomposition hint"
	}
	if isGL {
		hi := new(big.Int).Rsh(v, 32)
		lo := new(big.Int).And(v, big.NewInt(0xFFFFFFFF))
		if hi.Sign() > 0 {
			lo2 := new(big.Int).Add(lo, pow2(32))
			hi2 := new(big.Int).Sub(hi, big.NewInt(1))
			h := func(_ *big.Int, in []*big.Int, out []*big.Int) error {
				if in[0].Cmp(v) == 0 {
					out[0].Set(hi2)
					out[1].Set(lo2)
					return nil
				}
				return gl.SplitLimbsHint(nil, in, out)
			}
			if err := cc.Solve([]*big.Int{v}, nil, solver.OverrideHint(solver.GetHintID(gl.SplitLimbsHint), h), bitsOv(lo2)); err == nil {
				return true, "borrowed limbs with a non-boolean digit for the oversized limb"
			}
		}
	}
	if mech == "commit" {
		h := func(m *big.Int, in []*big.Int, out []*big.Int) error {
			if in[2].Cmp(v) == 0 {
				o := overflowDecompose(in, len(out))
				for i := range out {
					out[i].Set(o[i])
				}
				return nil
			}
			return rangecheck.DecomposeHint(m, in, out)
		}
		if err := cc.Solve([]*big.Int{v}, nil, solver.OverrideHint(solver.GetHintID(rangecheck.DecomposeHint), h)); err == nil {
			return true, "overflowing top limb in DecomposeHint"
		}
	}
	return false, ""
}

var c06Widths = func() []int {
	var w []int
	for i := 1; i <= 64; i++ {
		w = append(w, i)
	}
	return append(w, 96, 144, 192)
}()

func init() {
	register("C06", func() *fw.Prop {
		return &fw.Prop{
			ID:    "C06",
			Level: "exploration",
			Rule:  "cases = (executor, mechanism, gadget[, width n]): executor in {monitoring engine, compiled R1CS, compiled SCS}, mechanism in {native, commit, bit decomposition (env var, child process)}, gadget in {RangeCheck, RangeCheckWithMaxBits(n)}; each case evaluates the accept-set over the boundary values (0, 2^32, 2^64-2^32, p-1, p, p+1, 2^64, 2^n-1, 2^n, r-1, ...) plus seeded random values, existentially over the honest hints and the adversarial limb / decomposition candidates; oracle: accepted iff value < p resp. < 2^n. Unaligned widths under the commit mechanism must be REFUSED at build time. Non-trivial = at least one in-range and one out-of-range value were judged; distinct by case id. Also: RangeCheckQE in either coordinate (other coordinate 7 or p-1), the same operand as a circuit constant, two checks of one variable (wider first), and 'midsize' circuits (0 .. 63488 further checks, incl. the exact cost-tie size) under the commitment-based mechanism on the engine, R1CS and SCS: refused at definition or exact.",
			Assumptions: []string{
				"a natively range-checking builder is emulated by a wrapper around gnark's real builders whose Check is a bit decomposition (gnark 0.9.1 ships no such builder), and by the engine's Native face",
				"commitment hints of compiled systems are replaced by a hash of the committed values (as the provers do)",
			},
			MinEvents: 1000,
			Gen: func(ctx *fw.Ctx) []fw.Case {
				var cs []fw.Case
				add := func(exec, mech, gad string, n int, env string) {
					p := map[string]any{"exec": exec, "mech": mech, "gadget": gad, "n": n}
					if env != "" {
						p["env"] = env
					}
					cs = append(cs, fw.Case{ID: fmt.Sprintf("%s/%s/%s/%d", exec, mech, gad, n), Kind: "acceptset", P: p})
				}
				widthsFor := func(mech, exec string) []int {
					if ctx.Quick {
						switch {
						case mech == "commit":
							return []int{16, 32, 48, 64, 144, 5, 33, 63}
						case exec == "engine":
							return c06Widths
						default:
							return []int{1, 2, 7, 16, 31, 32, 33, 48, 63, 64, 96, 144, 192}
						}
					}
					if mech == "commit" {
						return []int{16, 32, 48, 64, 80, 96, 112, 128, 144, 160, 192, 1, 5, 15, 17, 33, 63, 100}
					}
					return c06Widths
				}
				const envBD = "USE_BIT_DECOMPOSITION_RANGE_CHECK=true"
				for _, exec := range []string{"engine", "r1cs", "scs"} {
					for _, mech := range []string{"native", "commit", "bitdecomp"} {
						env := ""
						if mech == "bitdecomp" {
							env = envBD
						}
						add(exec, mech, "gl", 0, env)
						add(exec, mech, "dbl", 32, env)
						if exec == "engine" || mech == "commit" || !ctx.Quick {
							add(exec, mech, "qe0", 0, env)
							add(exec, mech, "qe1", 0, env)
							// the other coordinate at p-1 (its high limb is all ones)
							add(exec, mech, "qe0m", 0, env)
							add(exec, mech, "qe1m", 0, env)
						}
						for _, n := range widthsFor(mech, exec) {
							add(exec, mech, "bits", n, env)
						}
					}
				}
				cs = append(cs, fw.Case{ID: "race/chip-cache", Kind: "race", P: map[string]any{}})
				// circuits of every size under the commitment-based mechanism: gnark's checker picks
				// its limb width from the number of checks, and a 32-bit check is only exact when
				// that width divides 32; such a circuit must be refused or checked exactly
				for _, exec := range []string{"engine", "r1cs", "scs"} {
					// 63487 further checks = 63488 in all: the size at which limb widths 11 and 16 cost
					// exactly the same in gnark's R1CS cost model (3M + 2^11 = 2M + 2^16)
					for _, pad := range []int{0, 20, 100, 3000, 40000, 63486, 63487, 63488} {
						if ctx.Quick && exec == "scs" && pad != 100 {
							continue
						}
						if ctx.Quick && exec == "r1cs" && pad == 63486 {
							continue
						}
						cs = append(cs, fw.Case{ID: fmt.Sprintf("midsize/%s/%d", exec, pad), Kind: "midsize", P: map[string]any{"exec": exec, "pad": pad}})
					}
				}
				// engine Plain face (no env var): the third selection branch
				add("engine", "plain", "gl", 0, "")
				for _, n := range widthsFor("plain", "engine") {
					add("engine", "plain", "bits", n, "")
				}
				return cs
			},
			Exec: func(ctx *fw.Ctx, c fw.Case) fw.Outcome {
				var o fw.Outcome
				if c.Kind == "race" {
					reports, work, err := runRaceBinary(2)
					if err != nil {
						return fw.Inconcl(err.Error())
					}
					if reports > 0 {
						return fw.Violate("data_race_in_chip_cache", fmt.Sprintf("%d race detector reports", reports))
					}
					if v, ok := work["crosstalk"].(float64); ok && v > 0 {
						return fw.Violate("chip_cache_crosstalk", fmt.Sprintf("%d runs observed another face's mechanism or verdict", int(v)))
					}
					if v, ok := work["whole_circuit_not_accepted"].(float64); ok && v > 0 {
						return fw.Violate("concurrent_whole_circuit_runs_disagree", fmt.Sprintf("%d of the concurrently defined verifier circuits did not accept a valid proof", int(v)))
					}
					if v, ok := work["whole_circuit_runs"].(float64); ok {
						o.Add("concurrent_whole_circuit_runs_under_race_detector", int(v))
					}
					if v, ok := work["chip_runs"].(float64); ok {
						o.Add("concurrent_chip_runs_under_race_detector", int(v))
						o.Events += int(v)
					}
					o.Sample = map[string]any{"race_build": work, "reports": reports}
					return o
				}
				if c.Kind == "midsize" {
					exec, pad := c.Str("exec"), c.Int("pad")
					fn := c06BitsGadget(32)
					vals := []*big.Int{bu(0), bu(1<<32 - 1), pow2(32), new(big.Int).Add(pow2(32), big.NewInt(5)), pow2(33), pow2(35), pow2(40), pow2(44), pow2(47), pow2(63), new(big.Int).Sub(bigR, big.NewInt(1))}
					refused, acc, rej := false, 0, 0
					if exec == "engine" {
						for _, v := range vals {
							v := v
							res := harnRunCommitPaddedOpt(engine.Options{Face: engine.Commit}, func(api frontend.API) { fn(api, []frontend.Variable{v}) }, pad)
							o.Events += events(res) + 1
							if res.Verdict == engine.Refuse {
								refused = true
								break
							}
							if res.Verdict == engine.Accept && v.BitLen() > 32 {
								return fw.Violate("accepts_out_of_range:engine:commit:midsize", fmt.Sprintf("circuit with %d further 32-bit checks: value %s passes a 32-bit check", pad, v))
							}
							if !res.AcceptedHonestly() && v.BitLen() <= 32 {
								return fw.Violate("rejects_in_range:engine:commit:midsize", fmt.Sprintf("circuit with %d further 32-bit checks: value %s: %s", pad, v, resStr(res)))
							}
							if res.Verdict == engine.Accept {
								acc++
							} else {
								rej++
							}
						}
					} else {
						cc, err := gadget.Compile(exec, fn, 1, 0, pad, nil)
						if err != nil {
							refused = true
						} else {
							for _, v := range vals {
								err := cc.Solve([]*big.Int{v}, nil)
								o.Events++
								if err == nil && v.BitLen() > 32 {
									return fw.Violate("accepts_out_of_range:"+exec+":commit:midsize", fmt.Sprintf("compiled circuit with %d further 32-bit checks (%d constraints): value %s passes a 32-bit check", pad, cc.CS.GetNbConstraints(), v))
								}
								if err != nil && v.BitLen() <= 32 {
									return fw.Violate("rejects_in_range:"+exec+":commit:midsize", fmt.Sprintf("compiled circuit with %d further 32-bit checks: value %s: %v", pad, v, trunc(err.Error(), 100)))
								}
								if err == nil {
									acc++
								} else {
									rej++
								}
							}
						}
					}
					if refused {
						o.Inc("midsize_refused_" + exec)
					} else {
						o.Inc("midsize_exact_" + exec)
					}
					o.Events++
					o.Sample = map[string]any{"exec": exec, "further_checks": pad, "refused_at_definition": refused, "accepted": acc, "rejected": rej}
					return o
				}
				exec, mech, gad, n := c.Str("exec"), c.Str("mech"), c.Str("gadget"), c.Int("n")
				isGL := gad == "gl" || gad == "qe0" || gad == "qe1" || gad == "qe0m" || gad == "qe1m"
				fn := gadget.Fn(c06GLGadget)
				switch {
				case gad == "qe0":
					fn = c06QEGadget(0)
				case gad == "qe1":
					fn = c06QEGadget(1)
				case gad == "qe0m":
					fn = c06QEGadget(0, P-1)
				case gad == "qe1m":
					fn = c06QEGadget(1, P-1)
				case gad == "dbl":
					fn = c06DoubleGadget
				case !isGL:
					fn = c06BitsGadget(n)
				}
				nrand := 24
				if !ctx.Quick {
					nrand = 120
				}
				if exec != "engine" && mech == "commit" {
					nrand = 6 // each solve of the padded system is costly
					if !ctx.Quick {
						nrand = 24
					}
				}
				if exec == "engine" && mech == "commit" {
					nrand = 4
					if !ctx.Quick {
						nrand = 16
					}
				}
				vals := c06Values(ctx, c.ID, n, nrand)
				aligned := isGL || n%16 == 0
				inR, outR := 0, 0
				judge := func(v *big.Int, acc bool, how string) (fw.Outcome, bool) {
					want := c06InRange(v, n)
					if want {
						inR++
					} else {
						outR++
					}
					if acc && !want {
						return fw.Violate(fmt.Sprintf("accepts_out_of_range:%s:%s:%s", exec, mech, gad), fmt.Sprintf("%s n=%d value=%s accepted via %s", c.ID, n, v, how)), true
					}
					if !acc && want {
						return fw.Violate(fmt.Sprintf("rejects_in_range:%s:%s:%s", exec, mech, gad), fmt.Sprintf("%s n=%d value=%s rejected (%s)", c.ID, n, v, how)), true
					}
					return fw.Outcome{}, false
				}
				if exec == "engine" {
					var face engine.Face
					switch mech {
					case "native":
						face = engine.Native
					case "commit":
						face = engine.Commit
					case "plain":
						face = engine.Plain
					case "bitdecomp":
						face = engine.Commit // the env var must override the Committer branch
					}
					if mech == "commit" && !aligned {
						res := harnRunCommitPaddedOpt(engine.Options{Face: engine.Commit}, func(api frontend.API) { fn(api, []frontend.Variable{big.NewInt(1)}) }, gadget.PadCommit)
						o.Events += events(res)
						if res.Verdict != engine.Refuse {
							return fw.Violate("unaligned_width_not_refused:engine:commit", fmt.Sprintf("n=%d: %s", n, resStr(res)))
						}
						o.Inc("unaligned_refused")
						o.Sample = map[string]any{"n": n, "refused": res.Msg}
						return o
					}
					for _, v := range vals {
						acc, how, inc := c06EngineAccepts(face, mech == "commit", fn, v, isGL, &o)
						if inc {
							return fw.Inconcl(how)
						}
						if vo, bad := judge(v, acc, how); bad {
							return vo
						}
					}
				} else {
					var wrap func(frontend.NewBuilder) frontend.NewBuilder
					pad := 0
					switch mech {
					case "native":
						wrap = wrapNative
					case "commit":
						pad = gadget.PadCommit
					}
					cc, err := gadget.Compile(exec, fn, 1, 0, pad, wrap)
					if mech == "commit" && !aligned {
						if err == nil {
							return fw.Violate("unaligned_width_not_refused:"+exec+":commit", fmt.Sprintf("n=%d compiled to %d constraints", n, cc.CS.GetNbConstraints()))
						}
						o.Inc("unaligned_refused")
						o.Events++
						o.Sample = map[string]any{"n": n, "refused": trunc(err.Error(), 80)}
						return o
					}
					if err != nil {
						return fw.Violate("build_refused:"+exec+":"+mech, fmt.Sprintf("%s n=%d: %v", c.ID, n, err))
					}
					o.Add("constraints_compiled", cc.CS.GetNbConstraints())
					for _, v := range vals {
						acc, how := c06SolverAccepts(cc, v, isGL, mech)
						o.Events++
						if vo, bad := judge(v, acc, how); bad {
							return vo
						}
					}
				}
				o.Add("values_in_range", inR)
				o.Add("values_out_of_range", outR)
				o.Inc("acceptsets_" + exec + "_" + mech)
				o.Trivial = inR == 0 || outR == 0
				o.Sample = map[string]any{"values": len(vals), "in_range": inR, "out_of_range": outR}
				return o
			},
		}
	})
}

func trunc(s string, n int) string {
	if len(s) > n {
		return s[:n]
	}
	return s
}

// c06RaceWorkload: 16 goroutines concurrently create chips on distinct APIs of different
// faces (the repository keeps a global chip map behind a mutex) and run range-check
// gadgets; every goroutine must observe the mechanism and the verdicts of its own face.
func c06RaceWorkload2() (int, int) { return c06RaceWorkloadImpl() }

func c06RaceWorkloadImpl() (int, int) {
	var wg sync.WaitGroup
	var mu sync.Mutex
	runs := 0
	cross := 0
	for g := 0; g < 16; g++ {
		wg.Add(1)
		go func(g int) {
			defer wg.Done()
			face := []engine.Face{engine.Native, engine.Plain, engine.Commit}[g%3]
			for k := 0; k < 40; k++ {
				var typ gl.RangeCheckerType
				v := bu(P - 1)
				if k%2 == 1 {
					v = bu(P)
				}
				res := harnRunOpt(engine.Options{Face: face}, func(api frontend.API) error {
					chip := gl.New(api)
					typ = chip.VerifRangeCheckerType()
					if face != engine.Commit {
						chip.RangeCheck(gl.NewVariable(v))
					} else {
						chip.Mul(gl.NewVariable(3), gl.NewVariable(5))
					}
					return nil
				})
				want := map[engine.Face]gl.RangeCheckerType{engine.Native: gl.NATIVE_RANGE_CHECKER, engine.Plain: gl.BIT_DECOMP_RANGE_CHECKER, engine.Commit: gl.COMMIT_RANGE_CHECKER}[face]
				bad := typ != want
				if face != engine.Commit {
					if (k%2 == 0) != (res.Verdict == engine.Accept) {
						bad = true
					}
				}
				mu.Lock()
				runs++
				if bad {
					cross++
				}
				mu.Unlock()
			}
		}(g)
	}
	wg.Wait()
	return runs, cross
}
