package props

import (
	"fmt"
	"github.com/consensys/gnark-crypto/ecc/bn254/fr"
	"github.com/consensys/gnark/frontend"
	"github.com/wormhole-foundation/example-near-light-client/fri"
	gl "github.com/wormhole-foundation/example-near-light-client/goldilocks"
	"github.com/wormhole-foundation/example-near-light-client/variables"
	"math/big"
	"strings"
	"verifharness/ref"

	"verifharness/circ"
	"verifharness/engine"
	"verifharness/fw"
)

// C17 — non-canonical encodings of proof elements are rejected everywhere.
// C20 — proof shapes inconsistent with the circuit description are never accepted.

var c17Ks = []string{"1", "2", "2^64", "max"}

func c17Offset(v *big.Int, k string) *big.Int {
	var kk *big.Int
	switch k {
	case "1":
		kk = big.NewInt(1)
	case "2":
		kk = big.NewInt(2)
	case "2^64":
		kk = pow2(64)
	case "2^20":
		kk = pow2(20)
	case "max144":
		kk = new(big.Int).Sub(pow2(144), big.NewInt(1))
	case "max":
		// largest k with v + k*p < r
		kk = new(big.Int).Sub(bigR, big.NewInt(1))
		kk.Sub(kk, v)
		kk.Div(kk, bigP)
	}
	return new(big.Int).Add(v, new(big.Int).Mul(kk, bigP))
}

func init() {
	register("C17", func() *fw.Prop {
		return &fw.Prop{
			ID:    "C17",
			Level: "exploration",
			Rule:  "cases = (accepted instance, Goldilocks-typed leaf position of Proof found by reflection, offset k*p with k in {1, 2, 2^64, largest k with value < r}, face, hint policy) executed through VerifierCircuit.Define; the verdict must be REJECT/REFUSE under the honest-with-total-fallback hint policy and under every adversarial limb candidate for the non-canonical value ((x>>32, x&mask), (hi-1, lo+2^32), (0,x), limbs of x mod p). Non-trivial = the leaf value really became non-canonical; distinct by (instance, leaf path, k, face). Also: the first position of every kind under the commitment-based mechanism with every forged limb pair, and both wrappers. File level (rawnc): residue + p for residues {0, 1, 2^32-2} written into the raw proof document at 14 positions (every kind of Goldilocks value, first / last element, both coordinates, the PoW witness), read by the repository's own deserialiser: the value must arrive at the circuit as written (a reader that normalises it gives one proof two accepted documents) and the verifier must not accept.",
			Assumptions: []string{
				"public inputs are excluded: the property lists proof elements only and the circuit deliberately reduces public inputs",
				"under the Commit face the checks are deferred to the end of the circuit, so that face is sampled; Native and Plain stop inside the canonicity sweep",
			},
			MinEvents: 100000,
			Setup: func(ctx *fw.Ctx) error {
				engine.SetRealHints(false) // large must-reject sweep: native fast path for honest hints
				return nil
			},
			Gen: func(ctx *fw.Ctx) []fw.Case {
				var cs []fw.Case
				for _, name := range instNames(ctx.Quick) {
					in := getInst(name)
					ls := circ.Leaves(&in.PWI.Proof)
					seen := map[string]int{}
					r := ctx.Rand("sel/" + name)
					n := 0
					for _, l := range ls {
						if !l.GL {
							continue
						}
						seen[l.Kind]++
						n++
						take := !ctx.Quick || seen[l.Kind] <= 2 || r.Intn(300) == 0
						if !take {
							continue
						}
						for ki, k := range c17Ks {
							pol := "fallback"
							if ctx.Quick || (n+ki)%8 == 0 {
								pol = "all"
							}
							cs = append(cs, fw.Case{ID: fmt.Sprintf("native/%s/%s/k=%s", name, l.Path, k), Kind: "nc", P: map[string]any{"inst": name, "path": l.Path, "k": k, "face": "native", "pol": pol, "leafkind": l.Kind}})
							// the 4-public-value wrapper must enforce the same canonicity (circuit A only)
							if name[0] == 'A' && (seen[l.Kind] == 1 || (!ctx.Quick && (n+ki)%4 == 0)) {
								cs = append(cs, fw.Case{ID: fmt.Sprintf("native-fixed/%s/%s/k=%s", name, l.Path, k), Kind: "nc", P: map[string]any{"inst": name, "path": l.Path, "k": k, "face": "native", "pol": "fallback", "leafkind": l.Kind, "wrapper": "fixed"}})
							}
							if seen[l.Kind] == 1 || (!ctx.Quick && n%40 == 0) {
								cs = append(cs, fw.Case{ID: fmt.Sprintf("plain/%s/%s/k=%s", name, l.Path, k), Kind: "nc", P: map[string]any{"inst": name, "path": l.Path, "k": k, "face": "plain", "pol": "all", "leafkind": l.Kind}})
							}
							// deferred (commitment-based) checking with forged limbs: every kind of position
							if (seen[l.Kind] == 1 && ki == 0 && (name == "A_testdata" || !ctx.Quick)) || (!ctx.Quick && (n+ki)%97 == 0) {
								cs = append(cs, fw.Case{ID: fmt.Sprintf("commit-forged/%s/%s/k=%s", name, l.Path, k), Kind: "nc", P: map[string]any{"inst": name, "path": l.Path, "k": k, "face": "commit", "pol": "all", "leafkind": l.Kind}})
							}
						}
					}
					// commit face sample
					nc := 2
					if !ctx.Quick {
						nc = 10
					}
					var gls []circ.Leaf
					for _, l := range ls {
						if l.GL {
							gls = append(gls, l)
						}
					}
					for i := 0; i < nc; i++ {
						l := gls[r.Intn(len(gls))]
						k := c17Ks[i%len(c17Ks)]
						cs = append(cs, fw.Case{ID: fmt.Sprintf("commit/%s/%s/k=%s", name, l.Path, k), Kind: "nc", P: map[string]any{"inst": name, "path": l.Path, "k": k, "face": "commit", "pol": "fallback", "leafkind": l.Kind}})
					}
					// file level: residue + p written into the raw document (c17_raw.go)
					cs = append(cs, c17RawGen(ctx, name)...)
				}
				return cs
			},
			Exec: func(ctx *fw.Ctx, c fw.Case) fw.Outcome {
				if c.Kind == "rawnc" {
					return c17RawExec(ctx, c)
				}
				var o fw.Outcome
				in := getInst(c.Str("inst")).Clone()
				ls := circ.Leaves(&in.PWI.Proof)
				var leaf *circ.Leaf
				for i := range ls {
					if ls[i].Path == c.Str("path") {
						leaf = &ls[i]
					}
				}
				if leaf == nil {
					return fw.Inconcl("leaf not found " + c.Str("path"))
				}
				v := leaf.Big()
				nv := c17Offset(v, c.Str("k"))
				if nv.Cmp(bigP) < 0 || nv.Cmp(bigR) >= 0 {
					return fw.Outcome{Trivial: true}
				}
				leaf.Set(nv)
				face := faceByName(c.Str("face"))
				pols := []engine.HintPolicy{nil}
				if c.Str("pol") == "all" {
					for _, cand := range c06LimbCandidates(nv) {
						pols = append(pols, limbPolicy{nv, cand})
					}
					if face == engine.Plain {
						// forged bit decompositions: a non-boolean first digit for an oversized limb
						hi := new(big.Int).Rsh(nv, 32)
						lo := new(big.Int).And(nv, big.NewInt(0xFFFFFFFF))
						pols = append(pols, multiPolicy{limbPolicy{nv, []*big.Int{big.NewInt(0), nv}}, bitsPolicy{nv}})
						if hi.Sign() > 0 {
							lo2 := new(big.Int).Add(lo, pow2(32))
							pols = append(pols, multiPolicy{limbPolicy{nv, []*big.Int{new(big.Int).Sub(hi, big.NewInt(1)), lo2}}, bitsPolicy{lo2}})
						}
						if hi.BitLen() > 32 {
							pols = append(pols, multiPolicy{limbPolicy{nv, []*big.Int{hi, lo}}, bitsPolicy{hi}})
						}
					}
				}
				fixed := c.Str("wrapper") == "fixed"
				for pi, pol := range pols {
					var res engine.Result
					if fixed {
						res = harnRunOpt(engine.Options{Face: face, Policy: pol}, in.CircuitFixed().Define)
					} else {
						res = runVerifier(in, engine.Options{Face: face, Policy: pol})
					}
					o.Events += events(res)
					if io, bad := inconclusiveIf(res); bad {
						return io
					}
					if res.Verdict == engine.Accept {
						w := ""
						if fixed {
							w = "CircuitFixed:"
						}
						return fw.Violate("accepts_noncanonical:"+w+c.Str("leafkind"), fmt.Sprintf("case %s: value %s -> %s accepted (hint policy #%d, face %s)", c.ID, v, nv, pi, face))
					}
					if pi == 0 {
						o.Inc("site[" + c.Str("leafkind") + "]=" + res.Kind + "@" + shortSite(res.Site))
						o.Add("honest_hint_refusals", int(res.Stats.HintRefused))
					}
					o.Inc("executions")
				}
				o.Inc("face_" + face.String())
				o.Sample = map[string]any{"value": v.String(), "noncanonical": nv.String(), "policies": len(pols)}
				return o
			},
		}
	})

	register("C20", func() *fw.Prop {
		ops := []string{"dropfirst", "droplast", "duplast", "appendzero", "empty"}
		type cfgEdit struct {
			field string
			delta int
			where string // config, params, both
		}
		var edits []cfgEdit
		// Only fields that prescribe the proof's shape or the number of checks are edited, and
		// only where the verification is specified by them: the FRI shape is prescribed by
		// fri_params (config.fri_config duplicates cap height / rate bits but nothing reads the
		// duplicate), the number of query indices by config.fri_config. Proof-of-work bits and
		// num_gate_constraints do not prescribe a shape and are not edited (see DESIGN.md §6).
		for _, d := range []int{1, -1} {
			for _, w := range []string{"config", "params", "both"} {
				edits = append(edits, cfgEdit{"NumQueryRounds", d, w})
			}
			for _, f := range []string{"CapHeight", "RateBits"} {
				for _, w := range []string{"params", "both"} {
					edits = append(edits, cfgEdit{f, d, w})
				}
			}
		}
		for _, d := range []int{1, -1} {
			edits = append(edits, cfgEdit{"DegreeBits", d, "params"}, cfgEdit{"DegreeBitsCommon", d, "common"}, cfgEdit{"DegreeBitsBoth", d, "both"},
				cfgEdit{"Arity0", d, "params"}, cfgEdit{"Arity1", d, "params"}, cfgEdit{"NumChallenges", d, "config"},
				cfgEdit{"NumWires", d, "config"}, cfgEdit{"NumRoutedWires", d, "config"}, cfgEdit{"NumConstants", d, "common"},
				cfgEdit{"QuotientDegreeFactor", d, "common"}, cfgEdit{"NumPartialProducts", d, "common"})
		}
		edits = append(edits, cfgEdit{"ArityDropLast", 0, "params"}, cfgEdit{"ArityAppend4", 0, "params"})
		// coordinated pairs that keep the LDE size (degree_bits + rate_bits) and change only what
		// follows from degree_bits alone (the prescribed final-polynomial length)
		for _, d := range []int{1, 2, 3, -1} {
			edits = append(edits, cfgEdit{"DegreeUpRateDown", d, "params"}, cfgEdit{"DegreeUpRateDown", d, "both"})
		}
		return &fw.Prop{
			ID:    "C20",
			Level: "exploration",
			Rule:  "cases = (accepted instance, list position of the proof structure found by reflection, mutation in {drop first, drop last, duplicate last, append zero element, empty}) and (instance, configuration edit of query rounds / cap height / rate bits / pow bits / degree bits / arity bits / counts, applied to config.fri_config, fri_params.config, or both) against the unchanged proof; executed through VerifierCircuit.Define; verdict must never be ACCEPT. The consistent k-round prefix restriction (truncate the round list AND both round counts) is C02's family and is not generated. Non-trivial = the shape or configuration really changed; distinct by (instance, list path, mutation). Also: the same list kinds in the LAST query round, the verifier data's cap list, coordinated degree_bits / rate_bits edits, a cooperating longer Merkle path (two cap entries replaced by their parent), and 'frilevel': VerifyFriProof driven with the unaltered proof's challenges on alterations of the round lists (first / last / every round), alone and together with a surplus commit-phase cap or final-polynomial coefficient.",
			Assumptions: []string{
				"PublicInputs is included as a list (its length is fixed by the wrapper template, so appending/dropping must change the hash and be rejected)",
			},
			MinEvents: 10000,
			Setup: func(ctx *fw.Ctx) error {
				engine.SetRealHints(false) // large must-reject sweep: native fast path for honest hints
				return nil
			},
			Gen: func(ctx *fw.Ctx) []fw.Case {
				var cs []fw.Case
				for _, name := range instNames(ctx.Quick) {
					in := getInst(name)
					lists := circ.Lists(&in.PWI)
					seen := map[string]int{}
					r := ctx.Rand("sel/" + name)
					lastRound := fmt.Sprintf("QueryRoundProofs[%d].", len(in.PWI.Proof.OpeningProof.QueryRoundProofs)-1)
					seenLast := map[string]int{}
					for _, l := range lists {
						seen[l.Kind]++
						take := seen[l.Kind] == 1 || r.Intn(60) == 0
						// every kind of list also in the LAST query round (a loop that stops one short)
						if strings.Contains(l.Path, lastRound) {
							seenLast[l.Kind]++
							if seenLast[l.Kind] == 1 {
								take = true
							}
						}
						if !ctx.Quick {
							take = seen[l.Kind] <= 3 || r.Intn(12) == 0
						}
						if !take {
							continue
						}
						for _, op := range ops {
							cs = append(cs, fw.Case{ID: fmt.Sprintf("%s/%s/%s", name, l.Path, op), Kind: "list", P: map[string]any{"inst": name, "path": l.Path, "op": op, "listkind": l.Kind}})
						}
					}
					// the verifier data is part of the shape too (its cap has a prescribed size)
					for _, l := range circ.Lists(&in.VD) {
						for _, op := range ops {
							cs = append(cs, fw.Case{ID: fmt.Sprintf("%s/VerifierData.%s/%s", name, l.Path, op), Kind: "list", P: map[string]any{"inst": name, "path": "VerifierData." + l.Path, "op": op, "listkind": "VerifierData." + l.Kind}})
						}
					}
					// cooperating alteration (the verifier data's cap is the only initial cap the
					// transcript does not bind): two neighbouring cap entries replaced by their parent and
					// the old neighbour appended as an extra sibling of the constants/sigmas paths
					for k := 0; k < 8; k++ {
						if ctx.Quick && k%2 == 1 && name != "A_testdata" {
							continue
						}
						cs = append(cs, fw.Case{ID: fmt.Sprintf("%s/longerpath/pair%d", name, k), Kind: "longerpath", P: map[string]any{"inst": name, "pair": k}})
					}
					// FRI level: VerifyFriProof driven with the challenges of the unaltered proof. Lists
					// inside the query rounds are not bound by the transcript; an alteration of them
					// (in one round, or the same one in every round) must be refused there too, also
					// when a transcript-bound list is altered along with it.
					if name == "A_testdata" || !ctx.Quick {
						nr := len(in.PWI.Proof.OpeningProof.QueryRoundProofs)
						rel := []string{"Steps", "Steps[0].Evals", "Steps[1].MerkleProof.Siblings", "InitialTreesProof.EvalsProofs", "InitialTreesProof.EvalsProofs[0].Elements", "InitialTreesProof.EvalsProofs[2].MerkleProof.Siblings"}
						cs = append(cs, fw.Case{ID: name + "/frilevel/control", Kind: "frilevel", P: map[string]any{"inst": name, "rel": "", "op": "", "where": "", "with": ""}})
						for _, rl := range rel {
							for _, op := range []string{"duplast", "appendzero", "droplast"} {
								for _, where := range []string{"first", "last", "all"} {
									for _, with := range []string{"", "dupcap", "appendfinal"} {
										if ctx.Quick && with != "" && where != "all" {
											continue
										}
										cs = append(cs, fw.Case{ID: fmt.Sprintf("%s/frilevel/%s/%s/%s/%s", name, rl, op, where, with), Kind: "frilevel", P: map[string]any{"inst": name, "rel": rl, "op": op, "where": where, "with": with, "rounds": nr}})
									}
								}
							}
						}
					}
					for i, e := range edits {
						if ctx.Quick && name != "A_testdata" && i%3 != 0 {
							continue
						}
						cs = append(cs, fw.Case{ID: fmt.Sprintf("%s/cfg/%s/%+d/%s", name, e.field, e.delta, e.where), Kind: "cfg", P: map[string]any{"inst": name, "field": e.field, "delta": e.delta, "where": e.where}})
					}
				}
				return cs
			},
			Exec: func(ctx *fw.Ctx, c fw.Case) fw.Outcome {
				var o fw.Outcome
				in := getInst(c.Str("inst")).Clone()
				what := ""
				switch c.Kind {
				case "list":
					var lr *circ.ListRef
					lists := circ.Lists(&in.PWI)
					for i := range lists {
						if lists[i].Path == c.Str("path") {
							lr = &lists[i]
						}
					}
					vlists := circ.Lists(&in.VD)
					for i := range vlists {
						if "VerifierData."+vlists[i].Path == c.Str("path") {
							lr = &vlists[i]
						}
					}
					if lr == nil {
						return fw.Inconcl("list not found")
					}
					before := lr.Len()
					if !lr.Mutate(c.Str("op")) {
						return fw.Outcome{Trivial: true}
					}
					what = fmt.Sprintf("%s len %d -> %d", c.Str("listkind"), before, lr.Len())
				case "frilevel":
					rcx, err := getRoundCtx(in.Name)
					if err != nil {
						return fw.Inconcl(err.Error())
					}
					nr := len(in.PWI.Proof.OpeningProof.QueryRoundProofs)
					applied := 0
					if c.Str("rel") != "" {
						var rounds []int
						switch c.Str("where") {
						case "first":
							rounds = []int{0}
						case "last":
							rounds = []int{nr - 1}
						default:
							for j := 0; j < nr; j++ {
								rounds = append(rounds, j)
							}
						}
						lists := circ.Lists(&in.PWI)
						for _, j := range rounds {
							want := fmt.Sprintf("Proof.OpeningProof.QueryRoundProofs[%d].%s", j, c.Str("rel"))
							for i := range lists {
								if lists[i].Path == want && lists[i].Mutate(c.Str("op")) {
									applied++
								}
							}
						}
						if applied == 0 {
							return fw.Outcome{Trivial: true}
						}
					}
					switch c.Str("with") {
					case "dupcap":
						cp := in.PWI.Proof.OpeningProof.CommitPhaseMerkleCaps
						in.PWI.Proof.OpeningProof.CommitPhaseMerkleCaps = append(append([]variables.FriMerkleCap{}, cp...), cp[len(cp)-1])
					case "appendfinal":
						fp := in.PWI.Proof.OpeningProof.FinalPoly.Coeffs
						in.PWI.Proof.OpeningProof.FinalPoly.Coeffs = append(append([]gl.QuadraticExtensionVariable{}, fp...), gl.QuadraticExtensionVariable{gl.NewVariable(0), gl.NewVariable(0)})
					}
					res := harnRunOpt(engine.Options{Face: engine.Native}, func(api frontend.API) error {
						cd := in.Common
						fc := fri.NewChip(api, &cd, &cd.FriParams)
						caps := []variables.FriMerkleCap{in.VD.ConstantSigmasCap, in.PWI.Proof.WiresCap, in.PWI.Proof.PlonkZsPartialProductsCap, in.PWI.Proof.QuotientPolysCap}
						ch := rcx.challenges
						fc.VerifyFriProof(fc.GetInstance(ch.PlonkZeta), fc.ToOpenings(in.PWI.Proof.Openings), &ch.FriChallenges, caps, &in.PWI.Proof.OpeningProof)
						return nil
					})
					o.Events += events(res) + 1
					if io, bad := inconclusiveIf(res); bad {
						return io
					}
					if c.Str("rel") == "" {
						if !res.AcceptedHonestly() {
							return fw.Inconcl("FRI-level control (unaltered proof, recorded challenges) not accepted: " + resStr(res))
						}
						o.Inc("frilevel_control_accepted")
						return o
					}
					if res.Verdict == engine.Accept {
						return fw.Violate("accepts_shape_change_at_fri_level:"+c.Str("rel")+":"+c.Str("op"), fmt.Sprintf("case %s: %d list(s) altered (%s) together with [%s]: VerifyFriProof with the unaltered proof's challenges accepted", c.ID, applied, c.Str("where"), c.Str("with")))
					}
					o.Inc("frilevel_" + res.Verdict.String())
					o.Sample = map[string]any{"lists_altered": applied, "with": c.Str("with"), "verdict": resStr(res)}
					return o
				case "longerpath":
					k := c.Int("pair")
					lde := uint(in.Common.FriParams.DegreeBits + in.Common.FriParams.Config.RateBits)
					rcx, err := getRoundCtx(in.Name)
					if err != nil {
						return fw.Inconcl(err.Error())
					}
					capv := in.VD.ConstantSigmasCap
					if len(capv) != 16 {
						return fw.Inconcl("cap size")
					}
					var l, rr fr.Element
					l.SetBigInt(leafBig(capv[2*k]))
					rr.SetBigInt(leafBig(capv[2*k+1]))
					parent := ref.BNTwoToOne(l, rr)
					oldL, oldR := leafBig(capv[2*k]), leafBig(capv[2*k+1])
					hit := 0
					for j, raw := range rcx.refCh.QueryIndicesRaw {
						if j >= len(in.PWI.Proof.OpeningProof.QueryRoundProofs) {
							break
						}
						ci := int((raw % (1 << lde)) >> (lde - 4))
						if ci != 2*k && ci != 2*k+1 {
							continue
						}
						hit++
						mp := &in.PWI.Proof.OpeningProof.QueryRoundProofs[j].InitialTreesProof.EvalsProofs[0].MerkleProof
						nb := oldR
						if ci == 2*k+1 {
							nb = oldL
						}
						mp.Siblings = append(append([]frontend.Variable{}, mp.Siblings...), frontend.Variable(nb))
					}
					if hit == 0 {
						return fw.Outcome{Trivial: true}
					}
					nc := append([]frontend.Variable{}, capv...)
					nc[2*k], nc[2*k+1] = frBig(parent), frBig(parent)
					in.VD.ConstantSigmasCap = nc
					what = fmt.Sprintf("cap entries %d,%d replaced by their parent, %d constants/sigmas paths one sibling longer", 2*k, 2*k+1, hit)
				case "cfg":
					d := uint64(int64(c.Int("delta")))
					apply := func(f string, cfgOnly, prmOnly bool) {
						fc, fp := &in.Common.Config.FriConfig, &in.Common.FriParams.Config
						set := func(a, b *uint64) {
							if !prmOnly {
								*a += d
							}
							if !cfgOnly {
								*b += d
							}
						}
						switch f {
						case "NumQueryRounds":
							set(&fc.NumQueryRounds, &fp.NumQueryRounds)
						case "CapHeight":
							set(&fc.CapHeight, &fp.CapHeight)
						case "RateBits":
							set(&fc.RateBits, &fp.RateBits)
						case "ProofOfWorkBits":
							set(&fc.ProofOfWorkBits, &fp.ProofOfWorkBits)
						}
					}
					w := c.Str("where")
					switch f := c.Str("field"); f {
					case "NumQueryRounds", "CapHeight", "RateBits", "ProofOfWorkBits":
						apply(f, w == "config", w == "params")
					case "DegreeBits":
						in.Common.FriParams.DegreeBits += d
					case "DegreeBitsCommon":
						in.Common.DegreeBits += d
					case "DegreeUpRateDown":
						in.Common.FriParams.DegreeBits += d
						in.Common.FriParams.Config.RateBits -= d
						if w == "both" {
							in.Common.DegreeBits += d
							in.Common.Config.FriConfig.RateBits -= d
						}
					case "DegreeBitsBoth":
						in.Common.FriParams.DegreeBits += d
						in.Common.DegreeBits += d
					case "Arity0":
						in.Common.FriParams.ReductionArityBits[0] += d
					case "Arity1":
						in.Common.FriParams.ReductionArityBits[1] += d
					case "ArityDropLast":
						in.Common.FriParams.ReductionArityBits = in.Common.FriParams.ReductionArityBits[:1]
					case "ArityAppend4":
						in.Common.FriParams.ReductionArityBits = append(in.Common.FriParams.ReductionArityBits, 4)
					case "NumChallenges":
						in.Common.Config.NumChallenges += d
					case "NumWires":
						in.Common.Config.NumWires += d
					case "NumRoutedWires":
						in.Common.Config.NumRoutedWires += d
					case "NumConstants":
						in.Common.NumConstants += d
					case "QuotientDegreeFactor":
						in.Common.QuotientDegreeFactor += d
					case "NumPartialProducts":
						in.Common.NumPartialProducts += d
					case "NumGateConstraints":
						in.Common.NumGateConstraints += d
					}
					what = fmt.Sprintf("%s %+d (%s)", c.Str("field"), c.Int("delta"), w)
				}
				res := runVerifier(in, engine.Options{Face: engine.Native})
				o.Events += events(res) + 1
				if io, bad := inconclusiveIf(res); bad {
					return io
				}
				if res.Verdict == engine.Accept {
					key := "accepts_shape_change:"
					if c.Kind == "list" {
						key += c.Str("listkind") + ":" + c.Str("op")
					} else {
						key += "cfg:" + c.Str("field") + ":" + c.Str("where")
					}
					return fw.Violate(key, fmt.Sprintf("case %s (%s): circuit ACCEPTED", c.ID, what))
				}
				kind := c.Str("listkind")
				if c.Kind == "cfg" {
					kind = "cfg:" + c.Str("field")
				}
				msg := res.Msg
				if i := strings.IndexAny(msg, "0123456789"); i > 12 {
					msg = msg[:i]
				}
				if res.Verdict == engine.Refuse {
					o.Inc("refuse[" + kind + "]=" + trunc(msg, 60))
				} else {
					o.Inc("reject[" + kind + "]=" + res.Kind + "@" + shortSite(res.Site))
				}
				o.Inc("verdict_" + res.Verdict.String())
				o.Sample = map[string]any{"change": what, "verdict": resStr(res), "msg": trunc(res.Msg, 80)}
				return o
			},
		}
	})
}
