package props

import (
	"crypto/sha256"
	"encoding/hex"
	"encoding/json"
	"fmt"
	"os"
	"os/exec"
	"path/filepath"
	"regexp"
	"strconv"
	"strings"
	"sync"

	gcgl "github.com/consensys/gnark-crypto/field/goldilocks"
	"github.com/wormhole-foundation/example-near-light-client/plonk/gates"
	"github.com/wormhole-foundation/example-near-light-client/types"
	"github.com/wormhole-foundation/example-near-light-client/variables"

	"verifharness/circ"
	"verifharness/engine"
	"verifharness/fw"
	"verifharness/inst"
	"verifharness/ref"
)

// C18 — gate identifiers resolve to exactly one gate with stated parameters, or fail.

const ph = "_phantom: PhantomData<plonky2_field::goldilocks_field::GoldilocksField>"

// identifiers of gates the verifier does not implement (Debug formats of plonky2 and of
// the gadget crates under /repo/crypto), and wrong extension degrees.
func unsupportedIDs() []string {
	ids := []string{
		"LookupGate { num_slots: 40, lut_hash: [154, 66, 201, 17, 5, 98, 220, 31, 44, 7, 190, 63, 128, 251, 14, 90, 3, 77, 166, 205, 39, 112, 8, 240, 59, 181, 26, 97, 213, 146, 70, 1] }",
		"LookupTableGate { num_slots: 26, lut_hash: [154, 66, 201, 17, 5, 98, 220, 31, 44, 7, 190, 63, 128, 251, 14, 90, 3, 77, 166, 205, 39, 112, 8, 240, 59, 181, 26, 97, 213, 146, 70, 1], last_lut_row: 3 }",
		"U32ArithmeticGate { num_ops: 3, " + ph + " }",
		"U32AddManyGate { num_addends: 2, num_ops: 5, " + ph + " }",
		"U32SubtractionGate { num_ops: 6, " + ph + " }",
		"U32RangeCheckGate { num_input_limbs: 8, " + ph + " }",
		"ComparisonGate { num_bits: 32, num_chunks: 16, " + ph + " }<D=2>",
		"U32InterleaveGate { num_ops: 10 }",
		"UninterleaveToB32Gate { num_ops: 5 }",
		"UninterleaveToU32Gate { num_ops: 5 }",
		"ExponentiationGate { num_power_bits: 67, " + ph + " }<D=4>",
		"RandomAccessGate { bits: 4, num_copies: 4, num_extra_constants: 2, " + ph + " }<D=4>",
		"RandomAccessGate { bits: 4, num_copies: 4, num_extra_constants: 2, " + ph + " }<D=1>",
		strings.Replace(gateID("CosetInterpolation", 4, 6), "<D=2>", "<D=4>", 1),
		strings.Replace(gateID("CosetInterpolation", 2, 2), "<D=2>", "<D=5>", 1),
		"ExponentiationGate { num_power_bits: 12, " + ph + " }<D=5>",
		"MulExtensionGateX { num_ops: 13 }",
		"",
		"Gate",
		"ArithmeticGate { num_ops: }",
		"BaseSumGate { num_limbs: 63 }",
		"ConstantGate",
	}
	// every supported identifier that states an extension degree, with every other degree
	seenType := map[string]int{}
	for _, id := range gateGrid(true) {
		if !strings.Contains(id, "<D=2>") {
			continue
		}
		t := id[:strings.IndexAny(id, " {<")]
		seenType[t]++
		if seenType[t] > 2 {
			continue
		}
		for _, d := range []string{"0", "1", "3", "4", "8", "22"} {
			ids = append(ids, strings.Replace(id, "<D=2>", "<D="+d+">", 1))
		}
	}
	return ids
}

var intRe = regexp.MustCompile(`[0-9]+`)

// expectedNumbers: the numbers the identifier states, in the order the repository's Id() prints them.
func expectedNumbers(s ref.GateSpec) []uint64 {
	p := s.Params
	switch s.Type {
	case "Arithmetic", "ArithmeticExtension", "MulExtension":
		return []uint64{p["num_ops"]}
	case "BaseSum":
		return []uint64{p["num_limbs"], p["base"]}
	case "Constant":
		return []uint64{p["num_consts"]}
	case "Exponentiation":
		return []uint64{p["num_power_bits"]}
	case "RandomAccess":
		return []uint64{p["bits"], p["num_copies"], p["num_extra_constants"]}
	case "Reducing", "ReducingExtension":
		return []uint64{p["num_coeffs"]}
	case "CosetInterpolation":
		// Gate.Id() prints the weights with fmt.Sprint of gnark-crypto elements, i.e. their
		// internal Montgomery words; convert the stated weights the same way.
		out := []uint64{p["subgroup_bits"], p["degree"]}
		for _, w := range s.Weights {
			var e gcgl.Element
			e.SetUint64(w)
			out = append(out, e[0])
		}
		return out
	}
	return nil
}

func typeOfID(id string) string {
	i := strings.Index(id, "Gate")
	if i < 0 {
		return id
	}
	return id[:i]
}

// resolve calls GateInstanceFromId, mapping a panic to refused=true.
func resolve(id string) (desc string, refused bool) {
	defer func() {
		if r := recover(); r != nil {
			refused = true
			desc = ""
		}
	}()
	g := gates.GateInstanceFromId(id)
	gid := g.Id()
	nums := intRe.FindAllString(gid, -1)
	return typeOfID(gid) + "(" + strings.Join(nums, ",") + ")", false
}

func expectedDesc(s ref.GateSpec) string {
	var parts []string
	for _, n := range expectedNumbers(s) {
		parts = append(parts, strconv.FormatUint(n, 10))
	}
	t := s.Type
	return t + "(" + strings.Join(parts, ",") + ")"
}

// RaceWorkload is run by the -race build: concurrent resolutions and concurrent chip
// creation; prints one JSON line with what it did.
// RaceReaders: the document readers used concurrently (the web API deserialises request
// bodies in concurrent handlers): every goroutine must read exactly what a single-threaded
// read returns, and the race detector watches the readers' shared state.
func RaceReaders(reps int) {
	type doc struct {
		in  *inst.Instance
		raw []byte
		vd  []byte
	}
	var docs []doc
	for _, n := range []string{"A_testdata", "B_random_CGZ", "A_testjson"} {
		in := getInst(n)
		raw, _ := os.ReadFile(in.Files.Proof)
		vd, _ := os.ReadFile(in.Files.VD)
		docs = append(docs, doc{in, raw, vd})
	}
	sum := func(p interface{}) string {
		h := sha256.New()
		for _, l := range circ.Leaves(p) {
			h.Write([]byte(l.Path))
			h.Write(l.Big().Bytes())
		}
		return hex.EncodeToString(h.Sum(nil)[:8])
	}
	base := make([][3]string, len(docs))
	for i, d := range docs {
		p, _ := variables.DeserializeProofWithPublicInputs(types.ReadProofWithPublicInputs(d.in.Files.Proof))
		v := variables.DeserializeVerifierOnlyCircuitData(types.ReadVerifierOnlyCircuitData(d.in.Files.VD))
		c := types.ReadCommonCircuitData(d.in.Files.Common)
		base[i] = [3]string{sum(&p), sum(&v), fmt.Sprintf("%d/%d/%d", len(c.GateIds), c.DegreeBits, len(c.KIs))}
	}
	var wg sync.WaitGroup
	var mu sync.Mutex
	reads, bad := 0, 0
	for g := 0; g < 12; g++ {
		wg.Add(1)
		go func(g int) {
			defer wg.Done()
			for k := 0; k < reps; k++ {
				i := (g + k) % len(docs)
				d := docs[i]
				var got [3]string
				func() {
					defer func() {
						if r := recover(); r != nil {
							got[0] = "panic"
						}
					}()
					var p variables.ProofWithPublicInputs
					var v variables.VerifierOnlyCircuitData
					if (g+k)%2 == 0 {
						p, _ = variables.DeserializeProofWithPublicInputs(types.ReadProofWithPublicInputsFromRequest(d.raw))
						v = variables.DeserializeVerifierOnlyCircuitData(types.ReadVerifierOnlyCircuitDataFromRequest(d.vd))
					} else {
						p, _ = variables.DeserializeProofWithPublicInputs(types.ReadProofWithPublicInputs(d.in.Files.Proof))
						v = variables.DeserializeVerifierOnlyCircuitData(types.ReadVerifierOnlyCircuitData(d.in.Files.VD))
					}
					c := types.ReadCommonCircuitData(d.in.Files.Common)
					got = [3]string{sum(&p), sum(&v), fmt.Sprintf("%d/%d/%d", len(c.GateIds), c.DegreeBits, len(c.KIs))}
				}()
				mu.Lock()
				reads++
				if got != base[i] {
					bad++
				}
				mu.Unlock()
			}
		}(g)
	}
	wg.Wait()
	b, _ := json.Marshal(map[string]any{"concurrent_reads": reads, "reads_differing_from_single_threaded": bad})
	fmt.Println("RACEWORK " + string(b))
}

func RaceWorkload(reps int) {
	ids := append(gateGrid(true), unsupportedIDs()...)
	var wg sync.WaitGroup
	var mu sync.Mutex
	outcomes := map[string]map[string]int{}
	for g := 0; g < 16; g++ {
		wg.Add(1)
		go func(g int) {
			defer wg.Done()
			for k := 0; k < reps; k++ {
				for _, id := range ids {
					d, ref := resolve(id)
					if ref {
						d = "REFUSED"
					}
					mu.Lock()
					if outcomes[id] == nil {
						outcomes[id] = map[string]int{}
					}
					outcomes[id][d]++
					mu.Unlock()
				}
			}
		}(g)
	}
	wg.Wait()
	chips, cross := c06RaceWorkload2()
	// whole verifier circuits defined concurrently (the web API proves requests concurrently):
	// every run must accept, and the race detector watches the repository's shared state
	wcRuns, wcBad := 0, 0
	{
		var wg2 sync.WaitGroup
		var mu2 sync.Mutex
		in := getInst("A_testdata").Restrict(1)
		for g := 0; g < 6; g++ {
			wg2.Add(1)
			go func(g int) {
				defer wg2.Done()
				face := []engine.Face{engine.Native, engine.Commit}[g%2]
				res := runVerifier(in.Clone(), engine.Options{Face: face})
				mu2.Lock()
				wcRuns++
				if !res.AcceptedHonestly() {
					wcBad++
				}
				mu2.Unlock()
			}(g)
		}
		wg2.Wait()
	}
	unstable := 0
	total := 0
	for _, m := range outcomes {
		if len(m) != 1 {
			unstable++
		}
		for _, n := range m {
			total += n
		}
	}
	b, _ := json.Marshal(map[string]any{"ids": len(ids), "resolutions": total, "unstable_ids": unstable, "chip_runs": chips, "crosstalk": cross, "whole_circuit_runs": wcRuns, "whole_circuit_not_accepted": wcBad})
	fmt.Println("RACEWORK " + string(b))
}

// runRaceBinary builds (cached) and runs the -race binary; returns reports found.
func runRaceBinary(reps int, part ...string) (reports int, work map[string]any, err error) {
	root := fw.VerifRoot()
	// the harness sources live next to the running binary (<dir>/bin/vcheck, <dir>/harness)
	exe, eerr := os.Executable()
	if eerr != nil {
		return 0, nil, eerr
	}
	base := filepath.Dir(filepath.Dir(exe))
	bin := filepath.Join(base, "bin", "vcheck-race")
	build := exec.Command("go", "build", "-race", "-tags", "verif", "-o", bin, "./cmd/vcheck")
	build.Dir = filepath.Join(base, "harness")
	build.Env = append(os.Environ(), "GOFLAGS=-mod=mod", "GOPROXY=off", "GOSUMDB=off", "GOTOOLCHAIN=local", "CGO_ENABLED=1")
	if out, e := build.CombinedOutput(); e != nil {
		return 0, nil, fmt.Errorf("building the race binary: %v: %s", e, trunc(string(out), 300))
	}
	logBase := filepath.Join(root, "scratch", fmt.Sprintf("race_%d", os.Getpid()))
	os.MkdirAll(filepath.Dir(logBase), 0o755)
	cmd := exec.Command(bin, append([]string{"racework", strconv.Itoa(reps)}, part...)...)
	cmd.Env = append(os.Environ(), "GORACE=halt_on_error=0 log_path="+logBase)
	out, e := cmd.CombinedOutput()
	matches, _ := filepath.Glob(logBase + ".*")
	for _, m := range matches {
		b, _ := os.ReadFile(m)
		reports += strings.Count(string(b), "WARNING: DATA RACE")
		os.Remove(m)
	}
	reports += strings.Count(string(out), "WARNING: DATA RACE")
	for _, l := range strings.Split(string(out), "\n") {
		if strings.HasPrefix(l, "RACEWORK ") {
			json.Unmarshal([]byte(l[len("RACEWORK "):]), &work)
		}
	}
	if e != nil && work == nil {
		return reports, nil, fmt.Errorf("race workload failed: %v: %s", e, trunc(string(out), 300))
	}
	return reports, work, nil
}

func init() {
	register("C18", func() *fw.Prop {
		return &fw.Prop{
			ID:          "C18",
			Level:       "exploration",
			Rule:        "cases = (identifier string, repetitions): identifiers generated from the plonky2 Debug formats over the supported gate types and parameter ranges (incl. those of the real common data), identifiers of unimplemented gates (lookup, lookup-table, the Debug formats of the gadget gates under /repo/crypto/plonky2_u32, wrong extension degree D, malformed strings); each identifier is resolved >=200 times (>=2000 thorough) in this process to sweep Go's randomised map iteration order, and again from 16 goroutines under the race detector (separate -race build). Oracle: the reference identifier parser — supported => every resolution yields the same gate type with exactly the stated numbers (read back from Gate.Id()); unsupported => every resolution panics. 'hiding' cases: ReadCommonCircuitData on the real documents with hiding=true must panic. Non-trivial = every identifier (distinct strings). Also: every stated extension degree other than 2, descriptions with both hiding flags set, and descriptions listing an unimplemented gate in the middle or at the end of the gate list (refused at the latest when the circuit is defined).",
			Assumptions: []string{"gate behaviour for a resolved identifier is C15's subject; here the resolved type and numbers are read from Gate.Id()"},
			MinEvents:   10000,
			Setup:       func(ctx *fw.Ctx) error { return refSelfTest(false) },
			Gen: func(ctx *fw.Ctx) []fw.Case {
				var cs []fw.Case
				ids := gateGrid(ctx.Quick)
				ids = append(ids, ref.ReadCommon(getInst("A_testdata").Files.Common).GateIDs...)
				// documented formats in the repository's gate files
				ids = append(ids, "ArithmeticGate { num_ops: 10 }", "ConstantGate { num_consts: 2 }", "BaseSumGate { num_limbs: 32 } + Base: 2", "ReducingGate { num_coeffs: 33 }", "ReducingExtensionGate { num_coeffs: 33 }", "MulExtensionGate { num_ops: 13 }", "RandomAccessGate { bits: 2, num_copies: 13, num_extra_constants: 2, "+ph+" }<D=2>", "ExponentiationGate { num_power_bits: 67, "+ph+" }<D=2>",
					gateID("CosetInterpolation", 7, 4), gateID("CosetInterpolation", 6, 2))
				seen := map[string]bool{}
				for _, id := range append(ids, unsupportedIDs()...) {
					if seen[id] {
						continue
					}
					seen[id] = true
					cs = append(cs, fw.Case{ID: "id/" + trunc(id, 90) + fmt.Sprint(len(id)), Kind: "id", P: map[string]any{"id": id}})
				}
				for _, n := range []string{"A_testdata", "B_random_CGZ"} {
					cs = append(cs, fw.Case{ID: "hiding/" + n, Kind: "hiding", P: map[string]any{"inst": n}})
					cs = append(cs, fw.Case{ID: "hiding+zero_knowledge/" + n, Kind: "hiding", P: map[string]any{"inst": n, "variant": "zk"}})
					for k := 0; k < 4; k++ {
						cs = append(cs, fw.Case{ID: fmt.Sprintf("document/unsupported_gate_at_the_end/%s/%d", n, k), Kind: "hiding", P: map[string]any{"inst": n, "variant": "unsupported_gate_at_the_end", "k": k}})
						cs = append(cs, fw.Case{ID: fmt.Sprintf("document/unsupported_gate_in_the_middle/%s/%d", n, k), Kind: "hiding", P: map[string]any{"inst": n, "variant": "unsupported_gate_in_the_middle", "k": k}})
					}
				}
				cs = append(cs, fw.Case{ID: "race", Kind: "race", P: map[string]any{}})
				return cs
			},
			Exec: func(ctx *fw.Ctx, c fw.Case) fw.Outcome {
				var o fw.Outcome
				switch c.Kind {
				case "id":
					id := c.Str("id")
					spec, supported := ref.ParseGateID(id)
					reps := 200
					if !ctx.Quick {
						reps = 2000
					}
					out := map[string]int{}
					for k := 0; k < reps; k++ {
						d, refused := resolve(id)
						if refused {
							d = "REFUSED"
						}
						out[d]++
					}
					o.Events += reps
					if len(out) != 1 {
						return fw.Violate("resolution_depends_on_iteration_order", fmt.Sprintf("identifier %q resolved to %v over %d repetitions", trunc(id, 100), out, reps))
					}
					var got string
					for k := range out {
						got = k
					}
					if supported {
						want := expectedDesc(spec)
						if got == "REFUSED" {
							return fw.Violate("supported_identifier_refused:"+spec.Type, fmt.Sprintf("%q", trunc(id, 120)))
						}
						if got != want {
							// Gate.Id() is only a description; before calling it a violation make sure the
							// resolved gate really behaves differently from the stated one (a changed Id()
							// format alone is not a defect)
							r := ctx.Rand("behaviour/" + c.ID)
							differs := false
							for k := 0; k < 4 && !differs; k++ {
								consts := make([]ref.E, c15Consts)
								for i := range consts {
									consts[i] = c15RandE(r)
								}
								wires := make([]ref.E, c15Wires)
								for i := range wires {
									wires[i] = c15RandE(r)
								}
								pih := ref.HashOut{randGL(r), randGL(r), randGL(r), randGL(r)}
								wantV := ref.EvalUnfiltered(spec, ref.Vars{Constants: consts, Wires: wires, PIHash: pih})
								gotV, res := evalGateCircuit(id, consts, wires, pih)
								if !res.AcceptedHonestly() || len(gotV) != len(wantV) {
									differs = true
									break
								}
								for i := range wantV {
									if gotV[i] != wantV[i] {
										differs = true
									}
								}
							}
							if differs {
								return fw.Violate("wrong_gate_or_parameters:"+spec.Type, fmt.Sprintf("identifier %q resolved to %s, stated %s (and the resolved gate evaluates differently from the stated one)", trunc(id, 120), trunc(got, 120), trunc(want, 120)))
							}
							o.Inc("id_text_differs_but_behaviour_matches")
						}
						o.Inc("supported_resolved_" + spec.Type)
					} else {
						if got != "REFUSED" {
							return fw.Violate("unsupported_identifier_bound:"+typeOfID(id), fmt.Sprintf("identifier %q of an unimplemented gate was bound to %s", trunc(id, 120), trunc(got, 80)))
						}
						o.Inc("unsupported_refused")
					}
					o.Add("resolutions", reps)
					o.Sample = map[string]any{"id": trunc(id, 80), "outcome": trunc(got, 80), "repetitions": reps}
				case "hiding":
					in := getInst(c.Str("inst"))
					b, err := os.ReadFile(in.Files.Common)
					if err != nil {
						return fw.Inconcl(err.Error())
					}
					s := strings.Replace(string(b), `"hiding": false`, `"hiding": true`, 1)
					if s == string(b) {
						return fw.Inconcl("could not set hiding in the document")
					}
					switch c.Str("variant") {
					case "zk":
						// what plonky2 writes for a real zero-knowledge circuit: both flags set
						s2 := strings.Replace(s, `"zero_knowledge": false`, `"zero_knowledge": true`, 1)
						if s2 == s {
							return fw.Inconcl("could not set zero_knowledge in the document")
						}
						s = s2
					case "unsupported_gate_at_the_end", "unsupported_gate_in_the_middle":
						// not hiding: an unimplemented gate listed in the description must be refused
						// wherever it stands (also beyond the last selector index)
						var doc map[string]any
						dec := json.NewDecoder(strings.NewReader(string(b)))
						dec.UseNumber()
						if err := dec.Decode(&doc); err != nil {
							return fw.Inconcl(err.Error())
						}
						gs := doc["gates"].([]any)
						bad := unsupportedIDs()[c.Int("k")%12]
						if c.Str("variant") == "unsupported_gate_at_the_end" {
							gs = append(gs, bad)
						} else {
							gs[len(gs)/2] = bad
						}
						doc["gates"] = gs
						nb, _ := json.Marshal(doc)
						s = string(nb)
					}
					path := filepath.Join(fw.VerifRoot(), "scratch", fmt.Sprintf("hiding_%s_%d.json", strings.NewReplacer("/", "_", "+", "_").Replace(c.ID), os.Getpid()))
					os.MkdirAll(filepath.Dir(path), 0o755)
					os.WriteFile(path, []byte(s), 0o644)
					defer os.Remove(path)
					refused := false
					var cdRead types.CommonCircuitData
					func() {
						defer func() {
							if r := recover(); r != nil {
								refused = true
							}
						}()
						cdRead = types.ReadCommonCircuitData(path)
					}()
					if !refused && strings.HasPrefix(c.Str("variant"), "unsupported") {
						// identifiers are resolved when the circuit is defined: the refusal may come there,
						// but the proof must not verify against such a description
						in2 := in.Restrict(1).Clone()
						in2.Common.GateIds = cdRead.GateIds // the gate list as read (the rest stays the k=1 restriction)
						in2.Common.SelectorsInfo = cdRead.SelectorsInfo
						res := runVerifier(in2, engine.Options{Face: engine.Native})
						if c.Int("k") == 0 {
							// control: the restriction itself is accepted with the genuine list
							if ctl := runVerifier(in.Restrict(1).Clone(), engine.Options{Face: engine.Native}); !ctl.AcceptedHonestly() {
								return fw.Inconcl("control run of the k=1 restriction: " + resStr(ctl))
							}
						}
						o.Events += events(res)
						if !res.AcceptedHonestly() {
							refused = true
							o.Inc("unsupported_gate_refused_at_definition")
						}
					}
					o.Events++
					if !refused {
						if v := c.Str("variant"); strings.HasPrefix(v, "unsupported") {
							return fw.Violate("unsupported_gate_in_document_not_refused:"+v, "ReadCommonCircuitData accepted a description listing an unimplemented gate ("+c.Str("inst")+")")
						}
						return fw.Violate("hiding_not_refused", "ReadCommonCircuitData accepted a document with hiding=true ("+c.Str("inst")+" "+c.Str("variant")+")")
					}
					// control: the unmodified document is read
					func() {
						defer func() {
							if r := recover(); r != nil {
								refused = false
							}
						}()
						types.ReadCommonCircuitData(in.Files.Common)
					}()
					if !refused {
						return fw.Inconcl("control: the unmodified document was refused")
					}
					o.Inc("hiding_refused")
				case "race":
					reps := 8
					if !ctx.Quick {
						reps = 120
					}
					reports, work, err := runRaceBinary(reps)
					if err != nil {
						return fw.Inconcl(err.Error())
					}
					o.Events += 1
					if work != nil {
						if v, ok := work["resolutions"].(float64); ok {
							o.Add("race_build_resolutions", int(v))
							o.Events += int(v)
						}
						if v, ok := work["unstable_ids"].(float64); ok && v > 0 {
							return fw.Violate("resolution_depends_on_iteration_order", fmt.Sprintf("%d identifiers resolved differently across goroutines in the race build", int(v)))
						}
					}
					if reports > 0 {
						return fw.Violate("data_race_in_gate_resolution_or_chip_cache", fmt.Sprintf("%d race detector reports", reports))
					}
					o.Add("race_detector_reports", 0)
					o.Sample = map[string]any{"race_build": work, "reports": reports}
				}
				return o
			},
		}
	})
}
