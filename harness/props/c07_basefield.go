package props

import (
	"encoding/json"
	"fmt"
	"math/big"
	"math/rand"
	"strconv"
	"sync"

	"github.com/consensys/gnark/frontend"
	gl "github.com/wormhole-foundation/example-near-light-client/goldilocks"

	"verifharness/engine"
	"verifharness/fw"
	"verifharness/gadget"
	"verifharness/ref"
)

// C07 — base-field gadgets compute exact Goldilocks results for all operands.

var c07Ops = []string{"Add", "Sub", "Mul", "MulAdd", "Reduce", "Inverse", "hasInv", "AddNoReduce", "SubNoReduce", "MulNoReduce", "MulAddNoReduce"}

// c07Gadget: in = [a, b, c, x]; outputs in the order of c07Ops.
func c07Gadget(api frontend.API, in []frontend.Variable) []frontend.Variable {
	g := gl.New(api)
	a, b, c, x := gl.NewVariable(in[0]), gl.NewVariable(in[1]), gl.NewVariable(in[2]), gl.NewVariable(in[3])
	inv, hasInv := g.Inverse(a)
	return []frontend.Variable{
		g.Add(a, b).Limb, g.Sub(a, b).Limb, g.Mul(a, b).Limb, g.MulAdd(a, b, c).Limb, g.Reduce(x).Limb,
		inv.Limb, hasInv,
		g.AddNoReduce(a, b).Limb, g.SubNoReduce(a, b).Limb, g.MulNoReduce(a, b).Limb, g.MulAddNoReduce(a, b, c).Limb,
	}
}

// c07AliasGadget: operand shapes under which a builder that mutates the first argument of
// MulAcc in place would corrupt a value still in use (shared variable between addend and
// product operand; an addend with spare capacity used as addend twice). in = [x, y, u, v, t].
func c07AliasGadget(api frontend.API, in []frontend.Variable) []frontend.Variable {
	g := gl.New(api)
	x, y, u, v, t := gl.NewVariable(in[0]), gl.NewVariable(in[1]), gl.NewVariable(in[2]), gl.NewVariable(in[3]), gl.NewVariable(in[4])
	s1 := g.Add(x, x)
	s2 := g.Sub(x, x)
	s3 := g.MulAdd(x, gl.NewVariable(5), x)
	keep := g.Mul(x, y)             // x must still be x here
	tt := g.MulAddNoReduce(t, y, u) // an expression with spare capacity
	r1 := g.MulAddNoReduce(x, y, tt)
	r2 := g.MulAddNoReduce(u, v, tt)
	tr := g.Reduce(tt) // MulAdd wants reduced operands
	r3 := g.MulAdd(x, y, tr)
	r4 := g.MulAdd(u, v, tr)
	e := g.MulAddExtension(gl.QuadraticExtensionVariable{x, y}, gl.QuadraticExtensionVariable{u, v}, gl.QuadraticExtensionVariable{tt, tt})
	return []frontend.Variable{s1.Limb, s2.Limb, s3.Limb, keep.Limb, g.Reduce(r1).Limb, g.Reduce(r2).Limb, r3.Limb, r4.Limb, e[0].Limb, e[1].Limb, tr.Limb}
}

func c07AliasExpected(in [5]uint64) []uint64 {
	x, y, u, v, t := in[0], in[1], in[2], in[3], in[4]
	tt := ref.Add(ref.Mul(t, y), u)
	e := ref.EAdd(ref.EMul(ref.E{x, y}, ref.E{u, v}), ref.E{tt, tt})
	return []uint64{ref.Add(x, x), 0, ref.Add(ref.Mul(x, 5), x), ref.Mul(x, y), ref.Add(ref.Mul(x, y), tt), ref.Add(ref.Mul(u, v), tt),
		ref.Add(ref.Mul(x, y), tt), ref.Add(ref.Mul(u, v), tt), e[0], e[1], tt}
}

type c07Triple struct {
	A, B, C uint64
	X       *big.Int
}

func c07Expected(t c07Triple) (exact map[int]uint64, congr map[int]uint64) {
	exact = map[int]uint64{
		0: ref.Add(t.A, t.B), 1: ref.Sub(t.A, t.B), 2: ref.Mul(t.A, t.B), 3: ref.Add(ref.Mul(t.A, t.B), t.C),
		4: ref.ReduceBig(t.X),
	}
	if t.A != 0 {
		exact[5] = ref.Inv(t.A)
		exact[6] = 1
	} else {
		exact[6] = 0
	}
	congr = map[int]uint64{7: exact[0], 8: exact[1], 9: exact[2], 10: exact[3]}
	return
}

func c07Judge(t c07Triple, outs []*big.Int, res engine.Result, where string) (fw.Outcome, bool) {
	if !res.AcceptedHonestly() {
		return fw.Violate("gadget_failed:"+where, fmt.Sprintf("a=%d b=%d c=%d x=%s: %s %s", t.A, t.B, t.C, t.X, resStr(res), res.Msg)), true
	}
	exact, congr := c07Expected(t)
	for i, e := range exact {
		if !outs[i].IsUint64() || outs[i].Uint64() != e {
			return fw.Violate("wrong_result:"+c07Ops[i], fmt.Sprintf("%s a=%d b=%d c=%d x=%s: got %s want %d (%s)", c07Ops[i], t.A, t.B, t.C, t.X, outs[i], e, where)), true
		}
	}
	for i, e := range congr {
		if new(big.Int).Mod(outs[i], bigP).Uint64() != e {
			return fw.Violate("wrong_residue:"+c07Ops[i], fmt.Sprintf("%s a=%d b=%d c=%d: got %s, residue want %d (%s)", c07Ops[i], t.A, t.B, t.C, outs[i], e, where)), true
		}
	}
	return fw.Outcome{}, false
}

// c07ReduceInput builds x = q*p + r with q < 2^144.
func c07ReduceInput(q *big.Int, r uint64) *big.Int {
	x := new(big.Int).Mul(q, bigP)
	return x.Add(x, bu(r))
}

func init() {
	register("C07", func() *fw.Prop {
		type compiledPair struct{ r1, scs *gadget.Compiled }
		return &fw.Prop{
			ID:    "C07",
			Level: "exploration",
			Rule:  "cases = (face, operand batch): every triple over the 7 structured edge values (343 triples, one case each per face) plus seeded random triples in batches of 64; each triple also carries a Reduce input q*p+r with q up to 2^144-1. A case is non-trivial if it executed all 11 gadget outputs and compared them with the native reference; distinct by case id (face, batch). Also: operands that are compile-time constants (0, 1, 2^16, 2^32, 2^48 +-1, 2^63, p-2^32, p-1) against extreme operands on the engine and on compiled R1CS / SCS systems, shared-operand shapes on compiled systems, and a compiled circuit with 192 independent operations solved concurrently under the race detector.",
			Assumptions: []string{
				"the native Goldilocks reference (ref/gl.go) is correct: validated on inverse/root-of-unity identities at start",
				"engine evaluation equals compiled-circuit semantics; sampled against gnark's R1CS and SCS solvers in the 'solver' cases",
			},
			MinEvents: 1000,
			Setup:     func(ctx *fw.Ctx) error { return refSelfTest(false) },
			Gen: func(ctx *fw.Ctx) []fw.Case {
				var cs []fw.Case
				faces := []string{"native", "plain", "commit"}
				for _, f := range faces {
					if f == "commit" {
						// the commit checker needs ~64k checks to pick width 16: batches only
						continue
					}
					for i := 0; i < 343; i++ {
						cs = append(cs, fw.Case{ID: fmt.Sprintf("%s/edge/%d", f, i), Kind: "edge", P: map[string]any{"face": f, "i": i}})
					}
				}
				nb := 32
				if !ctx.Quick {
					nb = 3200
				}
				for b := 0; b < nb; b++ {
					f := faces[b%2]
					cs = append(cs, fw.Case{ID: fmt.Sprintf("%s/rand/%d", f, b), Kind: "rand", P: map[string]any{"face": f, "b": b}})
				}
				// commit face: big batches so that the padded circuit reaches width 16
				ncb := 1
				if !ctx.Quick {
					ncb = 6
				}
				for b := 0; b < ncb; b++ {
					cs = append(cs, fw.Case{ID: fmt.Sprintf("commit/rand/%d", b), Kind: "commitbatch", P: map[string]any{"face": "commit", "b": b}})
				}
				// many triples on ONE chip in ONE circuit (state kept by a chip must not leak between calls)
				nseq := 4
				if !ctx.Quick {
					nseq = 60
				}
				for b := 0; b < nseq; b++ {
					f := []string{"native", "plain"}[b%2]
					cs = append(cs, fw.Case{ID: fmt.Sprintf("%s/seq/%d", f, b), Kind: "seqbatch", P: map[string]any{"face": f, "b": b}})
				}
				// operands that are compile-time CONSTANTS (round constants, coset shifts, 2^k
				// scalings are constants in the verifier): structured constants x extreme operands
				nco := 60
				if !ctx.Quick {
					nco = 600
				}
				for i := 0; i < nco; i++ {
					f := []string{"native", "plain"}[i%2]
					cs = append(cs, fw.Case{ID: fmt.Sprintf("%s/constops/%d", f, i), Kind: "constops", P: map[string]any{"face": f, "i": i}})
				}
				for _, sys := range []string{"r1cs", "scs"} {
					cs = append(cs, fw.Case{ID: "constops/" + sys, Kind: "constopscompiled", P: map[string]any{"sys": sys}})
				}
				cs = append(cs, fw.Case{ID: "race/solver", Kind: "race", P: map[string]any{}})
				ns := 12
				if !ctx.Quick {
					ns = 200
				}
				for _, sys := range []string{"r1cs", "scs"} {
					for i := 0; i < ns; i++ {
						cs = append(cs, fw.Case{ID: fmt.Sprintf("solver/%s/%d", sys, i), Kind: "solver", P: map[string]any{"sys": sys, "i": i}})
					}
					cs = append(cs, fw.Case{ID: "alias/" + sys, Kind: "alias", P: map[string]any{"sys": sys}})
				}
				return cs
			},
			Exec: func(ctx *fw.Ctx, c fw.Case) fw.Outcome {
				var o fw.Outcome
				run := func(face engine.Face, ts []c07Triple) (fw.Outcome, bool) {
					for _, t := range ts {
						in := []*big.Int{bu(t.A), bu(t.B), bu(t.C), t.X}
						outs, res := gadget.EngineEval(engine.Options{Face: face}, c07Gadget, in)
						if io, bad := inconclusiveIf(res); bad {
							return io, true
						}
						o.Events += events(res)
						if v, bad := c07Judge(t, outs, res, face.String()); bad {
							return v, true
						}
						o.Inc("triples_checked")
						if t.A == 0 {
							o.Inc("inverse_of_zero_cases")
						}
					}
					return fw.Outcome{}, false
				}
				switch c.Kind {
				case "race":
					reps := 4
					if !ctx.Quick {
						reps = 30
					}
					reports, work, err := runRaceBinary(reps, "solver")
					if err != nil {
						return fw.Inconcl(err.Error())
					}
					if reports > 0 {
						return fw.Violate("data_race_in_hint_functions", fmt.Sprintf("%d race detector reports while gnark's solver ran the repository's hint functions concurrently", reports))
					}
					if v, ok := work["honest_witness_rejected"].(float64); ok && v > 0 {
						return fw.Violate("solver_rejects_honest_witness_under_concurrency", fmt.Sprintf("%d of the solver runs rejected an honest witness", int(v)))
					}
					if v, ok := work["solver_runs"].(float64); ok && v > 0 {
						o.Add("solver_runs_under_race_detector", int(v))
						o.Events += int(v) * 192
					} else {
						return fw.Inconcl(fmt.Sprintf("race workload reported nothing: %v", work))
					}
					o.Sample = map[string]any{"race_build": work, "reports": reports}
					return o
				case "constops", "constopscompiled":
					consts := []uint64{0, 1, 2, 3, 1<<16 - 1, 1 << 16, 1<<16 + 1, 1<<32 - 1, 1 << 32, 1<<32 + 1, 1 << 48, 1<<48 + 1, 1 << 63, P - (1 << 32), P - 2, P - 1}
					extremes := []uint64{0, 1, P - 1, P - 2, 1 << 32, P - (1 << 32)}
					mkFn := func(k uint64) gadget.Fn {
						return func(api frontend.API, in []frontend.Variable) []frontend.Variable {
							g := gl.New(api)
							a, cc := gl.NewVariable(in[0]), gl.NewVariable(in[1])
							kc := gl.NewVariable(k) // a Go constant
							return []frontend.Variable{g.MulAdd(a, kc, cc).Limb, g.MulAdd(kc, a, cc).Limb, g.MulAdd(a, cc, kc).Limb,
								g.Mul(a, kc).Limb, g.Add(a, kc).Limb, g.Sub(a, kc).Limb, g.Sub(kc, a).Limb, g.Reduce(g.MulAddNoReduce(a, kc, cc)).Limb}
						}
					}
					want := func(k, a, cc uint64) []uint64 {
						return []uint64{ref.Add(ref.Mul(a, k), cc), ref.Add(ref.Mul(k, a), cc), ref.Add(ref.Mul(a, cc), k), ref.Mul(a, k), ref.Add(a, k), ref.Sub(a, k), ref.Sub(k, a), ref.Add(ref.Mul(a, k), cc)}
					}
					if c.Kind == "constopscompiled" {
						r := ctx.Rand(c.ID)
						for _, k := range []uint64{1 << 16, 1 << 32, 1 << 48, P - 1, 1<<32 + 1} {
							var ios []compiledIO
							for _, ac := range [][2]uint64{{P - 1, P - 1}, {P - 1, k}, {P - 2, 2 * k % P}, {randGL(r), randGL(r)}, {0, 0}} {
								w := want(k, ac[0], ac[1])
								outs := make([]*big.Int, len(w))
								for i := range w {
									outs[i] = bu(w[i])
								}
								ios = append(ios, compiledIO{In: []*big.Int{bu(ac[0]), bu(ac[1])}, Out: outs})
							}
							if v, bad := compiledAgree(&o, c.Str("sys"), "constant_operands", mkFn(k), 2, 8, ios); bad {
								return v
							}
						}
						return o
					}
					i := c.Int("i")
					r := ctx.Rand(c.ID)
					k := consts[i%len(consts)]
					if i%5 == 4 {
						k = randGL(r)
					}
					for t := 0; t < 12; t++ {
						a, cc := extremes[(i/len(consts)+t)%len(extremes)], extremes[(t*5+i)%len(extremes)]
						switch t % 4 {
						case 1:
							cc = k % P // c >= b with a = p-1: the quotient equals the constant
						case 2:
							cc = (2 * (k % P)) % P
						case 3:
							a, cc = randGL(r), randGL(r)
						}
						got, res := gadget.EngineEval(engine.Options{Face: faceByName(c.Str("face"))}, mkFn(k), []*big.Int{bu(a), bu(cc)})
						o.Events += events(res)
						if !res.AcceptedHonestly() {
							return fw.Violate("gadget_failed:constant_operand", fmt.Sprintf("constant %d, a=%d, c=%d: %s %s", k, a, cc, resStr(res), res.Msg))
						}
						w := want(k%P, a, cc)
						for j := range w {
							if !got[j].IsUint64() || got[j].Uint64() != w[j] {
								return fw.Violate("wrong_result:constant_operand", fmt.Sprintf("operation %d with constant %d, a=%d, c=%d: got %s want %d", j, k, a, cc, got[j], w[j]))
							}
						}
						o.Inc("constant_operand_tuples")
					}
					o.Sample = map[string]any{"constant": k}
				case "edge":
					i := c.Int("i")
					a, b, cc := edgeGL[i%7], edgeGL[(i/7)%7], edgeGL[(i/49)%7]
					qs := []*big.Int{big.NewInt(0), big.NewInt(1), new(big.Int).Sub(pow2(144), big.NewInt(1)), pow2(143), pow2(64)}
					t := c07Triple{A: a, B: b, C: cc, X: c07ReduceInput(qs[i%len(qs)], edgeGL[(i/5)%7])}
					if v, bad := run(faceByName(c.Str("face")), []c07Triple{t}); bad {
						return v
					}
					o.Sample = map[string]any{"a": a, "b": b, "c": cc, "reduce_input_bits": t.X.BitLen()}
				case "rand":
					r := ctx.Rand("rand/" + strconv.Itoa(c.Int("b")))
					var ts []c07Triple
					for k := 0; k < 64; k++ {
						q := randBig(r, pow2(uint(1+r.Intn(144))))
						ts = append(ts, c07Triple{A: randGL(r), B: randGL(r), C: randGL(r), X: c07ReduceInput(q, randGL(r))})
					}
					if v, bad := run(faceByName(c.Str("face")), ts); bad {
						return v
					}
				case "seqbatch":
					r := ctx.Rand("seq/" + strconv.Itoa(c.Int("b")))
					var ts []c07Triple
					for k := 0; k < 48; k++ {
						q := randBig(r, pow2(uint(1+r.Intn(144))))
						t := c07Triple{A: randGL(r), B: randGL(r), C: randGL(r), X: c07ReduceInput(q, randGL(r))}
						if k%6 == 5 {
							t = ts[k-3] // a repeated operand tuple in the middle of different ones
						}
						ts = append(ts, t)
					}
					outsAll := make([][]*big.Int, len(ts))
					res := harnRunOpt(engine.Options{Face: faceByName(c.Str("face"))}, func(api frontend.API) error {
						for k, t := range ts {
							ov := c07Gadget(api, []frontend.Variable{bu(t.A), bu(t.B), bu(t.C), t.X})
							outsAll[k] = make([]*big.Int, len(ov))
							for j := range ov {
								outsAll[k][j] = engine.Value(ov[j])
							}
						}
						return nil
					})
					if io, bad := inconclusiveIf(res); bad {
						return io
					}
					o.Events += events(res)
					for k, t := range ts {
						if outsAll[k] == nil {
							return fw.Violate("gadget_failed:sequence", fmt.Sprintf("sequence of %d operand tuples on one chip stopped: %s %s", len(ts), resStr(res), res.Msg))
						}
						if v, bad := c07Judge(t, outsAll[k], res, "sequence/"+c.Str("face")); bad {
							return v
						}
						o.Inc("triples_checked")
					}
					o.Sample = map[string]any{"face": c.Str("face"), "triples_on_one_chip": len(ts)}
				case "commitbatch":
					// one engine run under the commit face: many triples + padding so the
					// chip's alignment condition (optimal width 16) is met
					r := ctx.Rand("commit/" + strconv.Itoa(c.Int("b")))
					var ts []c07Triple
					for k := 0; k < 400; k++ {
						q := randBig(r, pow2(uint(1+r.Intn(144))))
						ts = append(ts, c07Triple{A: randGL(r), B: randGL(r), C: randGL(r), X: c07ReduceInput(q, randGL(r))})
					}
					for i := 0; i < 49; i++ {
						ts = append(ts, c07Triple{A: edgeGL[i%7], B: edgeGL[i/7], C: edgeGL[(i*3)%7], X: c07ReduceInput(pow2(uint(i*2)), edgeGL[i%7])})
					}
					outsAll := make([][]*big.Int, len(ts))
					res := harnRunCommitPadded(func(api frontend.API) {
						for k, t := range ts {
							o := c07Gadget(api, []frontend.Variable{bu(t.A), bu(t.B), bu(t.C), t.X})
							outsAll[k] = make([]*big.Int, len(o))
							for j := range o {
								outsAll[k][j] = engine.Value(o[j])
							}
						}
					}, gadget.PadCommit)
					if io, bad := inconclusiveIf(res); bad {
						return io
					}
					o.Events += events(res)
					for k, t := range ts {
						if v, bad := c07Judge(t, outsAll[k], res, "commit"); bad {
							return v
						}
						o.Inc("triples_checked")
					}
					o.Sample = map[string]any{"face": "commit", "triples": len(ts), "deferred_callbacks": res.Stats.Deferred}
				case "alias":
					sys := c.Str("sys")
					cc, err := gadget.Compile(sys, c07AliasGadget, 5, 11, gadget.PadCommit, nil)
					if err != nil {
						return fw.Inconcl("compile alias gadget: " + err.Error())
					}
					r := ctx.Rand("alias/" + sys)
					n := 8
					if !ctx.Quick {
						n = 60
					}
					for k := 0; k < n; k++ {
						in5 := [5]uint64{randGL(r), randGL(r), randGL(r), randGL(r), randGL(r)}
						if k == 0 {
							in5 = [5]uint64{3, 5, 7, 11, 13}
						}
						want := c07AliasExpected(in5)
						in := make([]*big.Int, 5)
						for i := range in {
							in[i] = bu(in5[i])
						}
						outs := make([]*big.Int, len(want))
						for i := range want {
							outs[i] = bu(want[i])
						}
						// the engine must compute the reference values ...
						got, res := gadget.EngineEval(engine.Options{Face: engine.Native}, c07AliasGadget, in)
						o.Events += events(res)
						if !res.AcceptedHonestly() {
							return fw.Violate("gadget_failed:alias_shapes", resStr(res))
						}
						for i := range want {
							if got[i].Cmp(outs[i]) != 0 {
								return fw.Violate("wrong_result:alias_shapes", fmt.Sprintf("output %d = %s, want %d (inputs %v)", i, got[i], want[i], in5))
							}
						}
						// ... and the compiled system must accept exactly them with the honest prover
						if err := cc.Solve(in, outs); err != nil {
							return fw.Violate("compiled_system_rejects_honest_witness:"+sys, fmt.Sprintf("shared-operand shapes (Add(x,x), MulAdd(x,k,x), an addend used twice), inputs %v: %v", in5, trunc(err.Error(), 160)))
						}
						bad := append([]*big.Int(nil), outs...)
						bad[k%len(bad)] = new(big.Int).Add(bad[k%len(bad)], big.NewInt(1))
						if err := cc.Solve(in, bad); err == nil {
							return fw.Violate("solver_accepts_wrong_output:"+sys+":alias_shapes", fmt.Sprintf("inputs %v output %d", in5, k%len(bad)))
						}
						o.Inc("alias_shapes_agree_" + sys)
					}
					o.Sample = map[string]any{"system": sys, "constraints": cc.CS.GetNbConstraints()}
				case "solver":
					sys := c.Str("sys")
					cp := ctx.Once("compiled/"+sys, func() any {
						cc, err := gadget.Compile(sys, c07Gadget, 4, len(c07Ops), gadget.PadCommit, nil)
						if err != nil {
							return err
						}
						return cc
					})
					cc, ok := cp.(*gadget.Compiled)
					if !ok {
						return fw.Inconcl(fmt.Sprintf("compile %s: %v", sys, cp))
					}
					r := ctx.Rand("solver/" + sys + "/" + strconv.Itoa(c.Int("i")))
					i := c.Int("i")
					t := c07Triple{A: randGL(r), B: randGL(r), C: randGL(r), X: c07ReduceInput(randBig(r, pow2(144)), randGL(r))}
					if i < 7 {
						t.A = edgeGL[i]
						t.B = edgeGL[(i*3)%7]
					}
					in := []*big.Int{bu(t.A), bu(t.B), bu(t.C), t.X}
					outs, res := gadget.EngineEval(engine.Options{Face: engine.Native}, c07Gadget, in)
					if v, bad := c07Judge(t, outs, res, "native"); bad {
						return v
					}
					o.Events += events(res)
					if err := cc.Solve(in, outs); err != nil {
						return fw.Violate("solver_rejects_engine_outputs:"+sys, fmt.Sprintf("a=%d b=%d c=%d: %v", t.A, t.B, t.C, err))
					}
					// a wrong output must be rejected by the compiled system
					bad := make([]*big.Int, len(outs))
					copy(bad, outs)
					k := i % 5
					bad[k] = new(big.Int).Add(outs[k], big.NewInt(1))
					if err := cc.Solve(in, bad); err == nil {
						return fw.Violate("solver_accepts_wrong_output:"+sys+":"+c07Ops[k], fmt.Sprintf("a=%d b=%d c=%d", t.A, t.B, t.C))
					}
					o.Inc("solver_agreements_" + sys)
					o.Sample = map[string]any{"system": sys, "constraints": cc.CS.GetNbConstraints(), "a": t.A, "b": t.B}
				}
				return o
			},
		}
	})
}

// RaceSolver: the repository's hint functions run inside gnark's real solver, which solves
// independent instructions of one level from several goroutines. A compiled circuit with many
// independent inversions / multiply-adds / reductions is solved repeatedly (also from several
// goroutines at once) under the race detector; every honest witness must be accepted.
func RaceSolver(reps int) {
	const n = 192
	fn := func(api frontend.API, in []frontend.Variable) []frontend.Variable {
		g := gl.New(api)
		out := make([]frontend.Variable, 0, 3*n)
		for i := 0; i < n; i++ {
			a, b := gl.NewVariable(in[2*i]), gl.NewVariable(in[2*i+1])
			inv, _ := g.Inverse(a)
			out = append(out, inv.Limb, g.MulAdd(a, b, a).Limb, g.Reduce(g.MulNoReduce(a, b)).Limb)
		}
		return out
	}
	cc, err := gadget.Compile("r1cs", fn, 2*n, 3*n, gadget.PadCommit, nil)
	if err != nil {
		fmt.Println("RACEWORK {\"error\": \"compile\"}")
		return
	}
	solves, failed := 0, 0
	var mu sync.Mutex
	var wg sync.WaitGroup
	for g := 0; g < 3; g++ {
		wg.Add(1)
		go func(g int) {
			defer wg.Done()
			r := rand.New(rand.NewSource(int64(1000 + g)))
			for k := 0; k < reps; k++ {
				in := make([]*big.Int, 2*n)
				outs := make([]*big.Int, 0, 3*n)
				for i := 0; i < n; i++ {
					a, b := 1+randGL(r)%(P-1), randGL(r)
					in[2*i], in[2*i+1] = bu(a), bu(b)
					outs = append(outs, bu(ref.Inv(a)), bu(ref.Add(ref.Mul(a, b), a)), bu(ref.Mul(a, b)))
				}
				err := cc.Solve(in, outs)
				mu.Lock()
				solves++
				if err != nil {
					failed++
				}
				mu.Unlock()
			}
		}(g)
	}
	wg.Wait()
	b, _ := json.Marshal(map[string]any{"solver_runs": solves, "honest_witness_rejected": failed, "independent_inversions_per_run": n})
	fmt.Println("RACEWORK " + string(b))
}
