package props

import (
	"fmt"
	"math/big"
	"math/rand"

	gcgl "github.com/consensys/gnark-crypto/field/goldilocks"
	"github.com/consensys/gnark/frontend"
	gl "github.com/wormhole-foundation/example-near-light-client/goldilocks"

	"verifharness/engine"
	"verifharness/fw"
	"verifharness/gadget"
	"verifharness/ref"
)

// C08 — extension-field arithmetic matches GF(p^2) and its degree-2 algebra.

func qeAt(in []frontend.Variable, i int) gl.QuadraticExtensionVariable {
	return gl.QuadraticExtensionVariable{gl.NewVariable(in[2*i]), gl.NewVariable(in[2*i+1])}
}
func algAt(in []frontend.Variable, i int) gl.QuadraticExtensionAlgebraVariable {
	return gl.QuadraticExtensionAlgebraVariable{qeAt(in, 2*i), qeAt(in, 2*i+1)}
}
func flatQE(q gl.QuadraticExtensionVariable) []frontend.Variable {
	return []frontend.Variable{q[0].Limb, q[1].Limb}
}
func flatAlg(a gl.QuadraticExtensionAlgebraVariable) []frontend.Variable {
	return append(flatQE(a[0]), flatQE(a[1])...)
}

type extOp struct {
	Name  string
	NIn   int // number of extension inputs
	Exact bool
	Fn    func(g *gl.Chip, api frontend.API, in []frontend.Variable, par uint64) []frontend.Variable
	Ref   func(in []ref.E, par uint64) ([]ref.F, bool) // ok=false: must reject
}

func eOut(es ...ref.E) []ref.F {
	var o []ref.F
	for _, e := range es {
		o = append(o, e[0], e[1])
	}
	return o
}
func refAlg(in []ref.E, i int) ref.A { return ref.A{in[2*i], in[2*i+1]} }
func aOut(as ...ref.A) []ref.F {
	var o []ref.F
	for _, a := range as {
		o = append(o, a[0][0], a[0][1], a[1][0], a[1][1])
	}
	return o
}

var c08Ops = []extOp{
	{"AddExtension", 2, true, func(g *gl.Chip, _ frontend.API, in []frontend.Variable, _ uint64) []frontend.Variable {
		return flatQE(g.AddExtension(qeAt(in, 0), qeAt(in, 1)))
	}, func(in []ref.E, _ uint64) ([]ref.F, bool) { return eOut(ref.EAdd(in[0], in[1])), true }},
	{"SubExtension", 2, true, func(g *gl.Chip, _ frontend.API, in []frontend.Variable, _ uint64) []frontend.Variable {
		return flatQE(g.SubExtension(qeAt(in, 0), qeAt(in, 1)))
	}, func(in []ref.E, _ uint64) ([]ref.F, bool) { return eOut(ref.ESub(in[0], in[1])), true }},
	{"MulExtension", 2, true, func(g *gl.Chip, _ frontend.API, in []frontend.Variable, _ uint64) []frontend.Variable {
		return flatQE(g.MulExtension(qeAt(in, 0), qeAt(in, 1)))
	}, func(in []ref.E, _ uint64) ([]ref.F, bool) { return eOut(ref.EMul(in[0], in[1])), true }},
	{"ScalarMulExtension", 2, true, func(g *gl.Chip, _ frontend.API, in []frontend.Variable, _ uint64) []frontend.Variable {
		return flatQE(g.ScalarMulExtension(qeAt(in, 0), gl.NewVariable(in[2])))
	}, func(in []ref.E, _ uint64) ([]ref.F, bool) { return eOut(ref.EScalar(in[0], in[1][0])), true }},
	{"MulAddExtension", 3, true, func(g *gl.Chip, _ frontend.API, in []frontend.Variable, _ uint64) []frontend.Variable {
		return flatQE(g.MulAddExtension(qeAt(in, 0), qeAt(in, 1), qeAt(in, 2)))
	}, func(in []ref.E, _ uint64) ([]ref.F, bool) { return eOut(ref.EAdd(ref.EMul(in[0], in[1]), in[2])), true }},
	{"SubMulExtension", 3, true, func(g *gl.Chip, _ frontend.API, in []frontend.Variable, _ uint64) []frontend.Variable {
		return flatQE(g.SubMulExtension(qeAt(in, 0), qeAt(in, 1), qeAt(in, 2)))
	}, func(in []ref.E, _ uint64) ([]ref.F, bool) { return eOut(ref.EMul(ref.ESub(in[0], in[1]), in[2])), true }},
	{"InverseExtension", 1, true, func(g *gl.Chip, _ frontend.API, in []frontend.Variable, _ uint64) []frontend.Variable {
		inv, has := g.InverseExtension(qeAt(in, 0))
		return append(flatQE(inv), has)
	}, func(in []ref.E, _ uint64) ([]ref.F, bool) {
		if ref.EIsZero(in[0]) {
			return nil, false
		}
		return append(eOut(ref.EInv(in[0])), 1), true
	}},
	{"DivExtension", 2, true, func(g *gl.Chip, _ frontend.API, in []frontend.Variable, _ uint64) []frontend.Variable {
		q, has := g.DivExtension(qeAt(in, 0), qeAt(in, 1))
		return append(flatQE(q), has)
	}, func(in []ref.E, _ uint64) ([]ref.F, bool) {
		if ref.EIsZero(in[1]) {
			return nil, false
		}
		return append(eOut(ref.EDiv(in[0], in[1])), 1), true
	}},
	{"ExpExtension", 1, true, func(g *gl.Chip, _ frontend.API, in []frontend.Variable, par uint64) []frontend.Variable {
		return flatQE(g.ExpExtension(qeAt(in, 0), par))
	}, func(in []ref.E, par uint64) ([]ref.F, bool) { return eOut(ref.EExp(in[0], par)), true }},
	{"IsZero", 1, true, func(g *gl.Chip, _ frontend.API, in []frontend.Variable, _ uint64) []frontend.Variable {
		return []frontend.Variable{g.IsZero(qeAt(in, 0))}
	}, func(in []ref.E, _ uint64) ([]ref.F, bool) {
		if ref.EIsZero(in[0]) {
			return []ref.F{1}, true
		}
		return []ref.F{0}, true
	}},
	{"Lookup", 2, true, func(g *gl.Chip, _ frontend.API, in []frontend.Variable, par uint64) []frontend.Variable {
		return flatQE(g.Lookup(par&1, qeAt(in, 0), qeAt(in, 1)))
	}, func(in []ref.E, par uint64) ([]ref.F, bool) { return eOut(in[par&1]), true }},
	{"Lookup2", 4, true, func(g *gl.Chip, _ frontend.API, in []frontend.Variable, par uint64) []frontend.Variable {
		return flatQE(g.Lookup2(par&1, (par>>1)&1, qeAt(in, 0), qeAt(in, 1), qeAt(in, 2), qeAt(in, 3)))
	}, func(in []ref.E, par uint64) ([]ref.F, bool) { return eOut(in[par&3]), true }},
	{"AddExtensionNoReduce", 2, false, func(g *gl.Chip, _ frontend.API, in []frontend.Variable, _ uint64) []frontend.Variable {
		return flatQE(g.AddExtensionNoReduce(qeAt(in, 0), qeAt(in, 1)))
	}, func(in []ref.E, _ uint64) ([]ref.F, bool) { return eOut(ref.EAdd(in[0], in[1])), true }},
	{"SubExtensionNoReduce", 2, false, func(g *gl.Chip, _ frontend.API, in []frontend.Variable, _ uint64) []frontend.Variable {
		return flatQE(g.SubExtensionNoReduce(qeAt(in, 0), qeAt(in, 1)))
	}, func(in []ref.E, _ uint64) ([]ref.F, bool) { return eOut(ref.ESub(in[0], in[1])), true }},
	{"MulExtensionNoReduce", 2, false, func(g *gl.Chip, _ frontend.API, in []frontend.Variable, _ uint64) []frontend.Variable {
		return flatQE(g.MulExtensionNoReduce(qeAt(in, 0), qeAt(in, 1)))
	}, func(in []ref.E, _ uint64) ([]ref.F, bool) { return eOut(ref.EMul(in[0], in[1])), true }},
	{"MulAddExtensionNoReduce", 3, false, func(g *gl.Chip, _ frontend.API, in []frontend.Variable, _ uint64) []frontend.Variable {
		return flatQE(g.MulAddExtensionNoReduce(qeAt(in, 0), qeAt(in, 1), qeAt(in, 2)))
	}, func(in []ref.E, _ uint64) ([]ref.F, bool) { return eOut(ref.EAdd(ref.EMul(in[0], in[1]), in[2])), true }},
	{"AddExtensionAlgebra", 4, true, func(g *gl.Chip, _ frontend.API, in []frontend.Variable, _ uint64) []frontend.Variable {
		return flatAlg(g.AddExtensionAlgebra(algAt(in, 0), algAt(in, 1)))
	}, func(in []ref.E, _ uint64) ([]ref.F, bool) { return aOut(ref.AAdd(refAlg(in, 0), refAlg(in, 1))), true }},
	{"SubExtensionAlgebra", 4, true, func(g *gl.Chip, _ frontend.API, in []frontend.Variable, _ uint64) []frontend.Variable {
		return flatAlg(g.SubExtensionAlgebra(algAt(in, 0), algAt(in, 1)))
	}, func(in []ref.E, _ uint64) ([]ref.F, bool) { return aOut(ref.ASub(refAlg(in, 0), refAlg(in, 1))), true }},
	{"MulExtensionAlgebra", 4, true, func(g *gl.Chip, _ frontend.API, in []frontend.Variable, _ uint64) []frontend.Variable {
		return flatAlg(g.MulExtensionAlgebra(algAt(in, 0), algAt(in, 1)))
	}, func(in []ref.E, _ uint64) ([]ref.F, bool) { return aOut(ref.AMul(refAlg(in, 0), refAlg(in, 1))), true }},
	{"ScalarMulExtensionAlgebra", 3, true, func(g *gl.Chip, _ frontend.API, in []frontend.Variable, _ uint64) []frontend.Variable {
		return flatAlg(g.ScalarMulExtensionAlgebra(qeAt(in, 0), gl.QuadraticExtensionAlgebraVariable{qeAt(in, 1), qeAt(in, 2)}))
	}, func(in []ref.E, _ uint64) ([]ref.F, bool) { return aOut(ref.AScalar(in[0], ref.A{in[1], in[2]})), true }},
}

// list-shaped operations
func c08ListGadget(op string, n int) gadget.Fn {
	return func(api frontend.API, in []frontend.Variable) []frontend.Variable {
		g := gl.New(api)
		switch op {
		case "ReduceWithPowers":
			terms := make([]gl.QuadraticExtensionVariable, n)
			for i := range terms {
				terms[i] = qeAt(in, 1+i)
			}
			return flatQE(g.ReduceWithPowers(terms, qeAt(in, 0)))
		case "InnerProductExtension":
			pairs := make([][2]gl.QuadraticExtensionVariable, n)
			for i := range pairs {
				pairs[i] = [2]gl.QuadraticExtensionVariable{qeAt(in, 2+2*i), qeAt(in, 3+2*i)}
			}
			return flatQE(g.InnerProductExtension(gl.NewVariable(in[0]), qeAt(in, 1), pairs))
		case "PartialInterpolateExtAlgebra":
			// in: point(alg), eval0(alg), prod0(alg), values n (alg); domain/weights are constants derived from n
			dom, w := c08Domain(n)
			vals := make([]gl.QuadraticExtensionAlgebraVariable, n)
			for i := range vals {
				vals[i] = algAt(in, 3+i)
			}
			e, p := g.PartialInterpolateExtAlgebra(dom, vals, w, algAt(in, 0), algAt(in, 1), algAt(in, 2))
			return append(flatAlg(e), flatAlg(p)...)
		}
		panic(op)
	}
}

func c08Domain(n int) ([]gcgl.Element, []gcgl.Element) {
	dom := make([]gcgl.Element, n)
	w := make([]gcgl.Element, n)
	sub := ref.TwoAdicSubgroup(5)
	for i := 0; i < n; i++ {
		dom[i].SetUint64(sub[i%32])
		w[i].SetUint64(ref.Mul(sub[(i*7+3)%32], uint64(i+2)))
	}
	return dom, w
}

func c08RandE(r *rand.Rand) ref.E {
	if r.Intn(12) == 0 {
		return ref.EZero
	}
	return randE(r)
}

func c08Exponent(r *rand.Rand, i int) uint64 {
	if i%4 == 3 {
		// 2^k - 1, 2^k, 2^k + 1 over the whole 64-bit range (float / shift precision boundaries)
		k := uint(21 + r.Intn(44))
		v := uint64(1) << (k % 64)
		if k == 64 {
			return ^uint64(0) - uint64(r.Intn(2))
		}
		return v + uint64(r.Intn(3)) - 1
	}
	switch i % 6 {
	case 0:
		return uint64(i / 6 % 40) // small incl. 0,1,2
	case 1:
		return uint64(1)<<uint(r.Intn(21)) - uint64(r.Intn(2)) // near powers of two
	case 2:
		return uint64(1)<<uint(r.Intn(21)) + uint64(r.Intn(3))
	case 3:
		return uint64(r.Intn(1 << 20))
	case 4:
		return r.Uint64()
	}
	return 1<<20 - uint64(r.Intn(4))
}

func init() {
	register("C08", func() *fw.Prop {
		return &fw.Prop{
			ID:          "C08",
			Level:       "exploration",
			Rule:        "cases = (face, operation, batch): every exported extension / algebra method of the Goldilocks chip executed on operand tuples with edge coordinates {0,1,2^32-1,2^32,2^63,p-2^32,p-1} in every slot plus seeded random (zero operands forced regularly); ExpExtension exponents 0..40, around powers of two up to 2^20, random 64-bit; ReduceWithPowers / InnerProductExtension on lists of length 0..300; PartialInterpolateExtAlgebra on 1..16 points; outputs compared with the native GF(p^2) / algebra reference (NoReduce variants: residues); inversion/division of zero must be REJECTED. Non-trivial = outputs were compared (or a zero inversion was judged); distinct by case id. Also: exponents 2^k-1, 2^k, 2^k+1 for k up to 64, and shared-operand shapes (an unreduced accumulator used twice, one variable in several positions) on compiled R1CS / SCS systems.",
			Assumptions: []string{"ref/gl.go is the specification of GF(p^2) with X^2=7 (validated by identities at start)"},
			MinEvents:   10000,
			Setup:       func(ctx *fw.Ctx) error { return refSelfTest(false) },
			Gen: func(ctx *fw.Ctx) []fw.Case {
				var cs []fw.Case
				nb := 8
				if !ctx.Quick {
					nb = 200
				}
				for _, f := range []string{"native", "plain"} {
					for oi := range c08Ops {
						for b := 0; b < nb; b++ {
							cs = append(cs, fw.Case{ID: fmt.Sprintf("%s/%s/%d", f, c08Ops[oi].Name, b), Kind: "op", P: map[string]any{"face": f, "op": oi, "b": b}})
						}
					}
					lens := []int{0, 1, 2, 3, 7, 8, 9, 63, 100, 300}
					if !ctx.Quick {
						lens = nil
						for n := 0; n <= 300; n++ {
							if n <= 40 || n%13 == 0 || n == 300 {
								lens = append(lens, n)
							}
						}
					}
					for _, n := range lens {
						if f == "plain" && n > 100 && ctx.Quick {
							continue
						}
						cs = append(cs, fw.Case{ID: fmt.Sprintf("%s/ReduceWithPowers/%d", f, n), Kind: "list", P: map[string]any{"face": f, "op": "ReduceWithPowers", "n": n}})
						cs = append(cs, fw.Case{ID: fmt.Sprintf("%s/InnerProductExtension/%d", f, n), Kind: "list", P: map[string]any{"face": f, "op": "InnerProductExtension", "n": n}})
					}
					for n := 1; n <= 16; n++ {
						if ctx.Quick && n > 6 && n%5 != 0 {
							continue
						}
						cs = append(cs, fw.Case{ID: fmt.Sprintf("%s/PartialInterpolateExtAlgebra/%d", f, n), Kind: "list", P: map[string]any{"face": f, "op": "PartialInterpolateExtAlgebra", "n": n}})
					}
				}
				cs = append(cs, fw.Case{ID: "commit/mixed", Kind: "commit", P: map[string]any{"face": "commit"}})
				// all operations interleaved on ONE chip in ONE circuit under the in-line faces
				nm := 2
				if !ctx.Quick {
					nm = 120
				}
				for i := 0; i < nm; i++ {
					cs = append(cs, fw.Case{ID: fmt.Sprintf("native/mixed/%d", i), Kind: "commit", P: map[string]any{"face": "native"}})
				}
				for _, sys := range []string{"r1cs", "scs"} {
					cs = append(cs, fw.Case{ID: "solver/" + sys, Kind: "solver", P: map[string]any{"sys": sys}})
				}
				return cs
			},
			Exec: func(ctx *fw.Ctx, c fw.Case) fw.Outcome {
				var o fw.Outcome
				r := ctx.Rand(c.ID)
				compare := func(name string, exact bool, got []*big.Int, want []ref.F, desc string) (fw.Outcome, bool) {
					if len(got) != len(want) {
						return fw.Violate("wrong_arity:"+name, fmt.Sprintf("%s: %d outputs, want %d", desc, len(got), len(want))), true
					}
					for i := range want {
						g := got[i]
						if !exact {
							g = new(big.Int).Mod(g, bigP)
						}
						if !g.IsUint64() || g.Uint64() != want[i] {
							return fw.Violate("wrong_result:"+name, fmt.Sprintf("%s: output %d = %s, want %d", desc, i, got[i], want[i])), true
						}
					}
					return fw.Outcome{}, false
				}
				switch c.Kind {
				case "op":
					op := c08Ops[c.Int("op")]
					face := faceByName(c.Str("face"))
					n := 24
					for k := 0; k < n; k++ {
						in := make([]ref.E, op.NIn)
						for i := range in {
							in[i] = c08RandE(r)
							if k < 7 && c.Int("b") == 0 {
								in[i] = ref.E{edgeGL[(k+i)%7], edgeGL[(k*3+i*5)%7]}
							}
						}
						par := uint64(k)
						if op.Name == "ExpExtension" {
							par = c08Exponent(r, k+n*c.Int("b"))
						}
						flat := make([]*big.Int, 0, 2*len(in))
						for _, e := range in {
							flat = append(flat, bu(e[0]), bu(e[1]))
						}
						fn := func(api frontend.API, vin []frontend.Variable) []frontend.Variable {
							return op.Fn(gl.New(api), api, vin, par)
						}
						got, res := gadget.EngineEval(engine.Options{Face: face}, fn, flat)
						o.Events += events(res)
						if io, bad := inconclusiveIf(res); bad {
							return io
						}
						want, ok := op.Ref(in, par)
						desc := fmt.Sprintf("%s(%v, par=%d) face=%s", op.Name, in, par, face)
						if !ok {
							if res.Verdict == engine.Accept {
								return fw.Violate("accepts_zero_inversion:"+op.Name, desc)
							}
							o.Inc("zero_inversions_rejected")
							continue
						}
						if !res.AcceptedHonestly() {
							return fw.Violate("gadget_failed:"+op.Name, desc+": "+resStr(res))
						}
						if v, bad := compare(op.Name, op.Exact, got, want, desc); bad {
							return v
						}
						o.Inc("tuples_checked")
					}
					o.Sample = map[string]any{"op": op.Name, "tuples": n}
				case "list":
					n := c.Int("n")
					opn := c.Str("op")
					face := faceByName(c.Str("face"))
					var flat []*big.Int
					var want []ref.F
					switch opn {
					case "ReduceWithPowers":
						alpha := c08RandE(r)
						terms := make([]ref.E, n)
						flat = append(flat, bu(alpha[0]), bu(alpha[1]))
						for i := range terms {
							terms[i] = c08RandE(r)
							flat = append(flat, bu(terms[i][0]), bu(terms[i][1]))
						}
						want = eOut(ref.ReduceWithPowers(terms, alpha))
					case "InnerProductExtension":
						cst := randGL(r)
						acc := c08RandE(r)
						flat = append(flat, bu(cst), big.NewInt(0), bu(acc[0]), bu(acc[1]))
						res := acc
						for i := 0; i < n; i++ {
							a, b := c08RandE(r), c08RandE(r)
							flat = append(flat, bu(a[0]), bu(a[1]), bu(b[0]), bu(b[1]))
							res = ref.EAdd(res, ref.EMul(ref.EScalar(a, cst), b))
						}
						want = eOut(res)
					case "PartialInterpolateExtAlgebra":
						rA := func() ref.A { return ref.A{c08RandE(r), c08RandE(r)} }
						pt, e0, p0 := rA(), rA(), rA()
						vals := make([]ref.A, n)
						for _, a := range []ref.A{pt, e0, p0} {
							flat = append(flat, bu(a[0][0]), bu(a[0][1]), bu(a[1][0]), bu(a[1][1]))
						}
						for i := range vals {
							vals[i] = rA()
							a := vals[i]
							flat = append(flat, bu(a[0][0]), bu(a[0][1]), bu(a[1][0]), bu(a[1][1]))
						}
						dom, w := c08Domain(n)
						ev, pr := e0, p0
						for i := 0; i < n; i++ {
							term := ref.ASub(pt, ref.AFrom(ref.EFrom(dom[i].Uint64())))
							ev = ref.AAdd(ref.AMul(ev, term), ref.AMul(ref.AScalar(ref.EFrom(w[i].Uint64()), vals[i]), pr))
							pr = ref.AMul(pr, term)
						}
						want = aOut(ev, pr)
					}
					var fn gadget.Fn
					if opn == "InnerProductExtension" {
						// re-map so that qeAt indices line up: scalar at in[0], then acc at qe index 1 => flatten differently
						fn = func(api frontend.API, in []frontend.Variable) []frontend.Variable {
							g := gl.New(api)
							pairs := make([][2]gl.QuadraticExtensionVariable, n)
							for i := range pairs {
								pairs[i] = [2]gl.QuadraticExtensionVariable{qeAt(in, 2+2*i), qeAt(in, 3+2*i)}
							}
							return flatQE(g.InnerProductExtension(gl.NewVariable(in[0]), qeAt(in, 1), pairs))
						}
					} else {
						fn = c08ListGadget(opn, n)
					}
					got, res := gadget.EngineEval(engine.Options{Face: face}, fn, flat)
					o.Events += events(res) + 1
					if io, bad := inconclusiveIf(res); bad {
						return io
					}
					desc := fmt.Sprintf("%s n=%d face=%s", opn, n, face)
					if !res.AcceptedHonestly() {
						return fw.Violate("gadget_failed:"+opn, desc+": "+resStr(res)+" "+res.Msg)
					}
					if v, bad := compare(opn, true, got, want, desc); bad {
						return v
					}
					o.Inc("lists_checked")
					o.Sample = map[string]any{"op": opn, "len": n}
				case "commit":
					// all ops once more in a single run under the commit face (padded)
					type pend struct {
						op   extOp
						in   []ref.E
						par  uint64
						outs []frontend.Variable
					}
					var ps []*pend
					for oi := range c08Ops {
						op := c08Ops[oi]
						for k := 0; k < 40; k++ {
							in := make([]ref.E, op.NIn)
							nz := true
							for i := range in {
								in[i] = randE(r)
								if ref.EIsZero(in[i]) {
									nz = false
								}
							}
							if !nz {
								continue
							}
							ps = append(ps, &pend{op: op, in: in, par: c08Exponent(r, k)})
						}
					}
					r.Shuffle(len(ps), func(i, j int) { ps[i], ps[j] = ps[j], ps[i] })
					body := func(api frontend.API) {
						g := gl.New(api)
						for _, p := range ps {
							var vin []frontend.Variable
							for _, e := range p.in {
								vin = append(vin, e[0], e[1])
							}
							p.outs = p.op.Fn(g, api, vin, p.par)
						}
					}
					var res engine.Result
					if c.Str("face") == "native" {
						res = harnRunOpt(engine.Options{Face: engine.Native}, func(api frontend.API) error { body(api); return nil })
					} else {
						res = harnRunCommitPadded(body, gadget.PadCommit)
					}
					o.Events += events(res)
					if io, bad := inconclusiveIf(res); bad {
						return io
					}
					if !res.AcceptedHonestly() {
						return fw.Violate("gadget_failed:commit", resStr(res)+" "+res.Msg)
					}
					for _, p := range ps {
						want, _ := p.op.Ref(p.in, p.par)
						got := make([]*big.Int, len(p.outs))
						for i := range got {
							got[i] = engine.Value(p.outs[i])
						}
						if v, bad := compare(p.op.Name, p.op.Exact, got, want, fmt.Sprintf("%s(%v) in a mixed sequence, face=%s", p.op.Name, p.in, c.Str("face"))); bad {
							return v
						}
						o.Inc("tuples_checked")
					}
					o.Sample = map[string]any{"face": c.Str("face"), "operations_on_one_chip": len(ps)}
				case "solver":
					sys := c.Str("sys")
					// one compiled circuit computing Mul, Div, MulAdd, SubMul and the algebra product
					fn := func(api frontend.API, in []frontend.Variable) []frontend.Variable {
						g := gl.New(api)
						a, b, cc := qeAt(in, 0), qeAt(in, 1), qeAt(in, 2)
						d, _ := g.DivExtension(a, b)
						out := flatQE(g.MulExtension(a, b))
						out = append(out, flatQE(d)...)
						out = append(out, flatQE(g.MulAddExtension(a, b, cc))...)
						out = append(out, flatQE(g.SubMulExtension(a, b, cc))...)
						out = append(out, flatAlg(g.MulExtensionAlgebra(algAt(in, 0), gl.QuadraticExtensionAlgebraVariable{cc, qeAt(in, 3)}))...)
						out = append(out, flatQE(g.ExpExtension(a, 11))...)
						// shared-operand shapes: an unreduced accumulator used as addend several times
						// (also next to a constant multiplicand) and read again afterwards; one
						// variable in several operand positions. A builder that updates MulAcc's first
						// argument in place must not be able to corrupt a value still in use.
						d4 := qeAt(in, 3)
						kc := gl.QuadraticExtensionVariable{gl.NewVariable(3), gl.NewVariable(5)}
						tt := g.MulAddExtensionNoReduce(a, b, cc)
						r1 := g.MulAddExtensionNoReduce(a, b, tt)
						r2 := g.MulAddExtensionNoReduce(cc, d4, tt)
						r3 := g.MulAddExtensionNoReduce(a, kc, tt)
						out = append(out, flatQE(g.ReduceExtension(r1))...)
						out = append(out, flatQE(g.ReduceExtension(r2))...)
						out = append(out, flatQE(g.ReduceExtension(r3))...)
						out = append(out, flatQE(g.ReduceExtension(tt))...)
						out = append(out, flatQE(g.MulExtension(a, a))...)
						out = append(out, flatQE(g.AddExtension(a, a))...)
						out = append(out, flatQE(g.SubMulExtension(a, a, b))...)
						out = append(out, flatQE(g.MulAddExtension(a, a, a))...)
						out = append(out, flatQE(g.MulExtension(a, b))...) // a, b must still be themselves
						return out
					}
					comp, err := gadget.Compile(sys, fn, 8, 32, gadget.PadCommit, nil)
					if err != nil {
						return fw.Inconcl("compile: " + err.Error())
					}
					n := 6
					if !ctx.Quick {
						n = 60
					}
					for k := 0; k < n; k++ {
						es := []ref.E{randE(r), randE(r), randE(r), randE(r)}
						if ref.EIsZero(es[1]) {
							es[1] = ref.EOne
						}
						var flat []*big.Int
						for _, e := range es {
							flat = append(flat, bu(e[0]), bu(e[1]))
						}
						want := eOut(ref.EMul(es[0], es[1]), ref.EDiv(es[0], es[1]), ref.EAdd(ref.EMul(es[0], es[1]), es[2]), ref.EMul(ref.ESub(es[0], es[1]), es[2]))
						want = append(want, aOut(ref.AMul(ref.A{es[0], es[1]}, ref.A{es[2], es[3]}))...)
						want = append(want, eOut(ref.EExp(es[0], 11))...)
						{
							a, b, cc, d4, kc := es[0], es[1], es[2], es[3], ref.E{3, 5}
							tt := ref.EAdd(ref.EMul(a, b), cc)
							want = append(want, eOut(ref.EAdd(ref.EMul(a, b), tt), ref.EAdd(ref.EMul(cc, d4), tt), ref.EAdd(ref.EMul(a, kc), tt), tt,
								ref.EMul(a, a), ref.EAdd(a, a), ref.EZero, ref.EAdd(ref.EMul(a, a), a), ref.EMul(a, b))...)
						}
						outs := make([]*big.Int, len(want))
						for i := range want {
							outs[i] = bu(want[i])
						}
						if err := comp.Solve(flat, outs); err != nil {
							return fw.Violate("solver_rejects_reference_outputs:"+sys, fmt.Sprintf("inputs %v: %v", es, err))
						}
						bad := append([]*big.Int(nil), outs...)
						bad[k%len(bad)] = new(big.Int).Add(bad[k%len(bad)], big.NewInt(1))
						if err := comp.Solve(flat, bad); err == nil {
							return fw.Violate("solver_accepts_wrong_output:"+sys, fmt.Sprintf("inputs %v output %d", es, k%len(bad)))
						}
						o.Inc("solver_agreements_" + sys)
						o.Events += 2
					}
					o.Sample = map[string]any{"system": sys, "constraints": comp.CS.GetNbConstraints()}
				}
				return o
			},
		}
	})
}
