package props

import (
	"fmt"
	"math/big"
	"sync"

	"github.com/consensys/gnark-crypto/ecc/bn254/fr"
	"github.com/consensys/gnark/frontend"
	"github.com/wormhole-foundation/example-near-light-client/fri"
	gl "github.com/wormhole-foundation/example-near-light-client/goldilocks"
	"github.com/wormhole-foundation/example-near-light-client/types"
	"github.com/wormhole-foundation/example-near-light-client/variables"
	"github.com/wormhole-foundation/example-near-light-client/verifier"

	"verifharness/circ"
	"verifharness/engine"
	"verifharness/inst"
	"verifharness/ref"
)

// Whole-circuit helpers shared by C01, C02, C03, C04, C05, C17, C20.

var instCache sync.Map // name -> *inst.Instance (pristine; always Clone before mutating)

func getInst(name string) *inst.Instance {
	if v, ok := instCache.Load(name); ok {
		return v.(*inst.Instance)
	}
	in := inst.ByName(name)
	instCache.Store(name, in)
	return in
}

func instNames(quick bool) []string {
	if quick {
		return []string{"A_testdata", "B_random_CGZ", "B_epoch_CbAH"}
	}
	return []string{"A_testdata", "A_testjson", "B_random_CGZ", "B_epoch_CbAH", "B_epoch_4RjX"}
}

// runVerifier executes VerifierCircuit.Define on the instance.
func runVerifier(in *inst.Instance, opt engine.Options) engine.Result {
	c := in.VerifierCircuit()
	return harnRunOpt(opt, c.Define)
}

// ---- assignment -> reference structures ----

func leafBig(x frontend.Variable) *big.Int { return circ.ToBig(x) }

func toF(x gl.Variable) (ref.F, bool) {
	b := leafBig(x.Limb)
	if b.Cmp(bigP) >= 0 {
		return 0, false
	}
	return b.Uint64(), true
}

type convErr struct{ msg string }

func toFr(x frontend.Variable) fr.Element {
	var e fr.Element
	e.SetBigInt(leafBig(x))
	return e
}

// toRefProof converts a (possibly perturbed) assignment to the reference structures.
// ok=false if some Goldilocks leaf is not canonical (the reference only speaks canonical).
func toRefProof(pwi *variables.ProofWithPublicInputs) (p *ref.Proof, ok bool) {
	ok = true
	f := func(x gl.Variable) ref.F {
		v, good := toF(x)
		if !good {
			ok = false
		}
		return v
	}
	e := func(x gl.QuadraticExtensionVariable) ref.E { return ref.E{f(x[0]), f(x[1])} }
	es := func(xs []gl.QuadraticExtensionVariable) []ref.E {
		o := make([]ref.E, len(xs))
		for i := range xs {
			o[i] = e(xs[i])
		}
		return o
	}
	hs := func(xs []frontend.Variable) []fr.Element {
		o := make([]fr.Element, len(xs))
		for i := range xs {
			o[i] = toFr(xs[i])
		}
		return o
	}
	pr := &pwi.Proof
	p = &ref.Proof{WiresCap: hs(pr.WiresCap), ZsCap: hs(pr.PlonkZsPartialProductsCap), QuotientCap: hs(pr.QuotientPolysCap)}
	o := &pr.Openings
	p.Openings = ref.OpeningSet{Constants: es(o.Constants), PlonkSigmas: es(o.PlonkSigmas), Wires: es(o.Wires), PlonkZs: es(o.PlonkZs), PlonkZsNext: es(o.PlonkZsNext), PartialProducts: es(o.PartialProducts), QuotientPolys: es(o.QuotientPolys)}
	for _, c := range pr.OpeningProof.CommitPhaseMerkleCaps {
		p.Fri.CommitCaps = append(p.Fri.CommitCaps, hs(c))
	}
	for i := range pr.OpeningProof.QueryRoundProofs {
		p.Fri.Rounds = append(p.Fri.Rounds, toRefRound(&pr.OpeningProof.QueryRoundProofs[i], &ok))
	}
	p.Fri.FinalPoly = es(pr.OpeningProof.FinalPoly.Coeffs)
	p.Fri.PowWitness = f(pr.OpeningProof.PowWitness)
	for _, x := range pwi.PublicInputs {
		// public inputs are reduced by the hash; the reference takes residues
		p.PublicInputs = append(p.PublicInputs, new(big.Int).Mod(leafBig(x.Limb), bigP).Uint64())
	}
	return p, ok
}

func toRefRound(r *variables.FriQueryRound, ok *bool) ref.QueryRound {
	var q ref.QueryRound
	f := func(x gl.Variable) ref.F {
		v, good := toF(x)
		if !good {
			*ok = false
		}
		return v
	}
	for _, ep := range r.InitialTreesProof.EvalsProofs {
		var leaf []ref.F
		for _, x := range ep.Elements {
			leaf = append(leaf, f(x))
		}
		var sib []fr.Element
		for _, s := range ep.MerkleProof.Siblings {
			sib = append(sib, toFr(s))
		}
		q.Initial = append(q.Initial, ref.EvalProof{Leaf: leaf, Siblings: sib})
	}
	for _, st := range r.Steps {
		var evs []ref.E
		for _, x := range st.Evals {
			evs = append(evs, ref.E{f(x[0]), f(x[1])})
		}
		var sib []fr.Element
		for _, s := range st.MerkleProof.Siblings {
			sib = append(sib, toFr(s))
		}
		q.Steps = append(q.Steps, ref.QueryStep{Evals: evs, Siblings: sib})
	}
	return q
}

func toRefVD(vd *variables.VerifierOnlyCircuitData) *ref.VerifierData {
	v := &ref.VerifierData{CircuitDigest: toFr(vd.CircuitDigest)}
	for _, c := range vd.ConstantSigmasCap {
		v.ConstantsSigmasCap = append(v.ConstantsSigmasCap, toFr(c))
	}
	return v
}

var refCommonCache sync.Map

// refCommon reads the common data with the reference's own reader and applies the same
// round-count restriction as the instance.
func refCommon(in *inst.Instance) *ref.Common {
	key := in.Files.Common
	var base *ref.Common
	if v, ok := refCommonCache.Load(key); ok {
		base = v.(*ref.Common)
	} else {
		base = ref.ReadCommon(key)
		refCommonCache.Store(key, base)
	}
	c := base.Clone()
	c.FriConfig.NumQueryRounds = int(in.Common.Config.FriConfig.NumQueryRounds)
	c.FriParamsConfig.NumQueryRounds = int(in.Common.FriParams.Config.NumQueryRounds)
	return c
}

func refVerifyInst(in *inst.Instance) error {
	p, ok := toRefProof(&in.PWI)
	if !ok {
		return fmt.Errorf("non-canonical Goldilocks element")
	}
	return ref.Verify(p, toRefVD(&in.VD), refCommon(in))
}

// ---- round isolation ----

// roundCtx holds the transcript-derived values of one unperturbed instance, recorded
// from an execution of the repository's own GetChallenges / fromOpeningsAndAlpha code.
type roundCtx struct {
	in         *inst.Instance
	challenges variables.ProofChallenges // constants
	reduced    []gl.QuadraticExtensionVariable
	pih        [4]gl.Variable
	refCh      *ref.Challenges
	refReduced []ref.E
	refInst    ref.FriInstance
	refPrm     ref.FriParams
	refCaps    [][]fr.Element
	refProof   *ref.Proof
}

var roundCtxCache sync.Map

func constGL(v gl.Variable) gl.Variable { return gl.NewVariable(engine.Value(v.Limb)) }
func constQE(v gl.QuadraticExtensionVariable) gl.QuadraticExtensionVariable {
	return gl.QuadraticExtensionVariable{constGL(v[0]), constGL(v[1])}
}

func getRoundCtx(name string) (*roundCtx, error) {
	if v, ok := roundCtxCache.Load(name); ok {
		return v.(*roundCtx), nil
	}
	in := getInst(name)
	rc := &roundCtx{in: in}
	res := harnRunOpt(engine.Options{Face: engine.Native}, func(api frontend.API) error {
		vc := verifier.NewVerifierChip(api, in.Common)
		pih := vc.GetPublicInputsHash(in.PWI.PublicInputs)
		ch := vc.GetChallenges(in.PWI.Proof, pih, in.VD)
		for i := range pih {
			rc.pih[i] = constGL(pih[i])
		}
		cc := variables.ProofChallenges{PlonkZeta: constQE(ch.PlonkZeta)}
		for _, b := range ch.PlonkBetas {
			cc.PlonkBetas = append(cc.PlonkBetas, constGL(b))
		}
		for _, b := range ch.PlonkGammas {
			cc.PlonkGammas = append(cc.PlonkGammas, constGL(b))
		}
		for _, b := range ch.PlonkAlphas {
			cc.PlonkAlphas = append(cc.PlonkAlphas, constGL(b))
		}
		cc.FriChallenges.FriAlpha = constQE(ch.FriChallenges.FriAlpha)
		for _, b := range ch.FriChallenges.FriBetas {
			cc.FriChallenges.FriBetas = append(cc.FriChallenges.FriBetas, constQE(b))
		}
		cc.FriChallenges.FriPowResponse = constGL(ch.FriChallenges.FriPowResponse)
		for _, b := range ch.FriChallenges.FriQueryIndices {
			cc.FriChallenges.FriQueryIndices = append(cc.FriChallenges.FriQueryIndices, constGL(b))
		}
		rc.challenges = cc
		cd := in.Common
		fc := fri.NewChip(api, &cd, &cd.FriParams)
		op := fc.ToOpenings(in.PWI.Proof.Openings)
		red := fc.VerifFromOpeningsAndAlpha(&op, ch.FriChallenges.FriAlpha)
		for _, r := range red {
			rc.reduced = append(rc.reduced, constQE(r))
		}
		return nil
	})
	if !res.AcceptedHonestly() {
		return nil, fmt.Errorf("recording the transcript of %s failed: %s", name, res)
	}
	// reference side
	p, ok := toRefProof(&in.PWI)
	if !ok {
		return nil, fmt.Errorf("instance %s not canonical", name)
	}
	c := refCommon(in)
	ch, _ := ref.GetChallenges(p, toRefVD(&in.VD), c)
	rc.refCh = ch
	rc.refProof = p
	rc.refInst = refPlonkInstance(c, ch.Zeta)
	rc.refPrm = ref.FriParams{DegreeBits: c.DegreeBits, RateBits: c.FriParamsConfig.RateBits, CapHeight: c.FriParamsConfig.CapHeight, PowBits: c.FriParamsConfig.PowBits, NumQueryRounds: c.FriParamsConfig.NumQueryRounds, ArityBits: c.ReductionArityBits}
	o := &p.Openings
	var b0 []ref.E
	for _, l := range [][]ref.E{o.Constants, o.PlonkSigmas, o.Wires, o.PlonkZs, o.PartialProducts, o.QuotientPolys} {
		b0 = append(b0, l...)
	}
	rc.refReduced = []ref.E{ref.ReduceWithPowers(b0, ch.FriAlpha), ref.ReduceWithPowers(o.PlonkZsNext, ch.FriAlpha)}
	rc.refCaps = [][]fr.Element{toRefVD(&in.VD).ConstantsSigmasCap, p.WiresCap, p.ZsCap, p.QuotientCap}
	// the recorded transcript must agree with the reference's
	if engine.Value(rc.challenges.PlonkZeta[0].Limb).Uint64() != ch.Zeta[0] || engine.Value(rc.challenges.FriChallenges.FriAlpha[1].Limb).Uint64() != ch.FriAlpha[1] {
		return nil, fmt.Errorf("recorded transcript of %s differs from the reference transcript", name)
	}
	for i := range rc.reduced {
		if engine.Value(rc.reduced[i][0].Limb).Uint64() != rc.refReduced[i][0] {
			return nil, fmt.Errorf("recorded reduced openings of %s differ from the reference", name)
		}
	}
	roundCtxCache.Store(name, rc)
	return rc, nil
}

func refPlonkInstance(c *ref.Common, zeta ref.E) ref.FriInstance {
	return ref.PlonkInstance(c, zeta)
}

// runRound executes the repository's verifyQueryRound for round j alone, on the given
// (possibly perturbed) round proof, with the recorded challenges.
func (rc *roundCtx) runRound(j int, round *variables.FriQueryRound, opt engine.Options) engine.Result {
	in := rc.in
	return harnRunOpt(opt, func(api frontend.API) error {
		cd := in.Common
		fc := fri.NewChip(api, &cd, &cd.FriParams)
		instance := fc.GetInstance(rc.challenges.PlonkZeta)
		caps := []variables.FriMerkleCap{in.VD.ConstantSigmasCap, in.PWI.Proof.WiresCap, in.PWI.Proof.PlonkZsPartialProductsCap, in.PWI.Proof.QuotientPolysCap}
		nLog := cd.FriParams.DegreeBits + cd.FriParams.Config.RateBits
		fc.VerifVerifyQueryRound(instance, &rc.challenges.FriChallenges, rc.reduced, caps, &in.PWI.Proof.OpeningProof,
			rc.challenges.FriChallenges.FriQueryIndices[j], uint64(1)<<nLog, nLog, round)
		return nil
	})
}

// refRound is the reference verdict for the same isolated round.
func (rc *roundCtx) refRound(j int, round *variables.FriQueryRound) error {
	ok := true
	q := toRefRound(round, &ok)
	if !ok {
		return fmt.Errorf("non-canonical element")
	}
	return ref.VerifyFriRound(rc.refInst, rc.refPrm, rc.refCh.FriAlpha, rc.refCh.FriBetas, rc.refReduced, rc.refCaps, rc.refProof.Fri.CommitCaps, rc.refProof.Fri.FinalPoly, rc.refCh.QueryIndicesRaw[j], &q)
}

var _ = types.FriConfig{}
