package props

import (
	"fmt"
	"math/big"
	"math/rand"

	"github.com/consensys/gnark-crypto/ecc/bn254/fr"
	"github.com/consensys/gnark/constraint/solver"
	"github.com/consensys/gnark/frontend"
	stdbits "github.com/consensys/gnark/std/math/bits"
	gl "github.com/wormhole-foundation/example-near-light-client/goldilocks"
	"github.com/wormhole-foundation/example-near-light-client/poseidon"

	"verifharness/engine"
	"verifharness/fw"
	"verifharness/gadget"
	"verifharness/ref"
)

// C09 — in-circuit Goldilocks Poseidon equals plonky2's Poseidon for all inputs.
// C10 — BN254 Poseidon hashing and hash/field conversions are exact and collision-free.

func poseidonPermGadget(api frontend.API, in []frontend.Variable) []frontend.Variable {
	chip := poseidon.NewGoldilocksChip(api)
	var st poseidon.GoldilocksState
	for i := range st {
		st[i] = gl.NewVariable(in[i])
	}
	out := chip.Poseidon(st)
	res := make([]frontend.Variable, 12)
	for i := range res {
		res[i] = out[i].Limb
	}
	return res
}

func c09State(r *rand.Rand, kind int) ref.State {
	var s ref.State
	switch kind {
	case 0:
	case 1:
		for i := range s {
			s[i] = P - 1
		}
	case 2:
		s[r.Intn(12)] = edgeGL[r.Intn(len(edgeGL))]
	case 3:
		for i := range s {
			s[i] = edgeGL[r.Intn(len(edgeGL))]
		}
	case 5:
		// every element cancels its first round constant: each first-layer sum is exactly p
		for i := range s {
			s[i] = P - ref.RoundConstant(i)
		}
	case 7:
		// every first-layer sum is p-1: all twelve S-box outputs are p-1 (largest MDS row sums)
		for i := range s {
			s[i] = ref.Sub(P-1, ref.RoundConstant(i))
		}
	case 6:
		// some elements one off that point
		for i := range s {
			s[i] = ref.Sub(P-ref.RoundConstant(i), uint64(r.Intn(3)))
			if r.Intn(2) == 0 {
				s[i] = ref.Add(s[i], uint64(r.Intn(3)))
			}
		}
	default:
		for i := range s {
			s[i] = randGL(r)
		}
	}
	return s
}

func init() {
	register("C09", func() *fw.Prop {
		return &fw.Prop{
			ID:          "C09",
			Level:       "exploration",
			Rule:        "cases = 'perm' (face, 12-element state: all-zero, all p-1, single-hot edge values, all-edge, random) -> permutation output vs. the naive reference Poseidon (full MDS and full round constants in partial rounds, independent of the fast-round tables); 'hash' (face, input length 0..40 with canonical and non-canonical v+k*p elements) -> HashNoPad vs. reference over residues; 'ntom' (input length, output count 1..12) -> HashNToMNoPad; 'func' (state, hint site inside the permutation, alternative family) -> a substituted hint output must be refused by the site's own constraints (the permutation is a function); 'solver' -> the same on a really compiled R1CS permutation circuit with solver.OverrideHint, where any accepted output different from the reference output is a violation. Non-trivial = outputs compared / substitution differed from honest; distinct by case id. Also: the state as circuit constants, states whose elements cancel their first round constants, and results of earlier hash calls on one chip read after later calls ('retain').",
			Assumptions: []string{"the naive reference is validated on the plonky2 zero-state vector and the public-input-hash vector at start"},
			MinEvents:   100000,
			Setup:       func(ctx *fw.Ctx) error { return refSelfTest(false) },
			Gen: func(ctx *fw.Ctx) []fw.Case {
				var cs []fw.Case
				np := 200
				if !ctx.Quick {
					np = 6000
				}
				for i := 0; i < np; i++ {
					f := []string{"native", "plain"}[i%2]
					if i%10 == 9 {
						f = "native"
					}
					cs = append(cs, fw.Case{ID: fmt.Sprintf("perm/%s/%d", f, i), Kind: "perm", P: map[string]any{"face": f, "i": i}})
				}
				maxLen := 40
				for n := 0; n <= maxLen; n++ {
					reps := 1
					if !ctx.Quick {
						reps = 20
					}
					for k := 0; k < reps; k++ {
						cs = append(cs, fw.Case{ID: fmt.Sprintf("hash/%d/%d", n, k), Kind: "hash", P: map[string]any{"n": n, "k": k}})
					}
				}
				for m := 1; m <= 12; m++ {
					for _, n := range []int{0, 3, 8, 9, 17} {
						if ctx.Quick && (m+n)%3 != 0 {
							continue
						}
						cs = append(cs, fw.Case{ID: fmt.Sprintf("ntom/%d/%d", n, m), Kind: "ntom", P: map[string]any{"n": n, "m": m}})
					}
				}
				nf := 300
				if !ctx.Quick {
					nf = 5000
				}
				for i := 0; i < nf; i++ {
					cs = append(cs, fw.Case{ID: fmt.Sprintf("func/%d", i), Kind: "func", P: map[string]any{"i": i}})
				}
				nret := 30
				if !ctx.Quick {
					nret = 600
				}
				for i := 0; i < nret; i++ {
					cs = append(cs, fw.Case{ID: fmt.Sprintf("retain/%d", i), Kind: "retain", P: map[string]any{"i": i}})
				}
				ns := 24
				if !ctx.Quick {
					ns = 160
				}
				for i := 0; i < ns; i++ {
					cs = append(cs, fw.Case{ID: fmt.Sprintf("solver/%d", i), Kind: "solver", P: map[string]any{"i": i}})
				}
				cs = append(cs, fw.Case{ID: "commit/perm", Kind: "commit", P: map[string]any{"face": "commit"}})
				nsq := 3
				if !ctx.Quick {
					nsq = 40
				}
				for i := 0; i < nsq; i++ {
					cs = append(cs, fw.Case{ID: fmt.Sprintf("native/permseq/%d", i), Kind: "commit", P: map[string]any{"face": "native"}})
				}
				return cs
			},
			Exec: func(ctx *fw.Ctx, c fw.Case) fw.Outcome {
				var o fw.Outcome
				r := ctx.Rand(c.ID)
				stateIn := func(s ref.State) []*big.Int {
					in := make([]*big.Int, 12)
					for i := range in {
						in[i] = bu(s[i])
					}
					return in
				}
				switch c.Kind {
				case "perm":
					s := c09State(r, c.Int("i")%8)
					want := ref.Poseidon(s)
					got, res := gadget.EngineEval(engine.Options{Face: faceByName(c.Str("face"))}, poseidonPermGadget, stateIn(s))
					o.Events += events(res)
					if io, bad := inconclusiveIf(res); bad {
						return io
					}
					if !res.AcceptedHonestly() {
						return fw.Violate("permutation_failed", fmt.Sprintf("state %v: %s", s, resStr(res)))
					}
					for i := range want {
						if !got[i].IsUint64() || got[i].Uint64() != want[i] {
							return fw.Violate("wrong_permutation_output", fmt.Sprintf("state %v: out[%d]=%s want %d", s, i, got[i], want[i]))
						}
					}
					o.Inc("permutations_checked")
					// the same state as circuit CONSTANTS (capacity and padding are constants in real
					// use; builders and this engine report them as such)
					if c.Int("i")%3 == 0 {
						var outs poseidon.GoldilocksState
						rc := harnRunOpt(engine.Options{Face: faceByName(c.Str("face"))}, func(api frontend.API) error {
							chip := poseidon.NewGoldilocksChip(api)
							var st poseidon.GoldilocksState
							for i := range st {
								st[i] = gl.NewVariable(s[i])
							}
							outs = chip.Poseidon(st)
							return nil
						})
						o.Events += events(rc)
						if !rc.AcceptedHonestly() {
							return fw.Violate("permutation_failed", fmt.Sprintf("constant state %v: %s", s, resStr(rc)))
						}
						for i := range want {
							if v := engine.Value(outs[i].Limb); !v.IsUint64() || v.Uint64() != want[i] {
								return fw.Violate("wrong_permutation_output", fmt.Sprintf("constant state %v: out[%d]=%s want %d", s, i, v, want[i]))
							}
						}
						o.Inc("constant_state_permutations_checked")
					}
					o.Sample = map[string]any{"state": s, "out0": want[0]}
				case "retain":
					// results of earlier hash calls on ONE chip are read after later calls
					nh := 2 + r.Intn(3)
					var ins [][]ref.F
					var ms []int
					flat := []*big.Int{}
					for h := 0; h < nh; h++ {
						n := r.Intn(20)
						v := make([]ref.F, n)
						for i := range v {
							v[i] = randGL(r)
							flat = append(flat, bu(v[i]))
						}
						ins = append(ins, v)
						ms = append(ms, 1+r.Intn(12))
					}
					fn := func(api frontend.API, in []frontend.Variable) []frontend.Variable {
						chip := poseidon.NewGoldilocksChip(api)
						pos := 0
						var kept [][]gl.Variable
						var keptH []poseidon.GoldilocksHashOut
						for h := 0; h < nh; h++ {
							vs := make([]gl.Variable, len(ins[h]))
							for i := range vs {
								vs[i] = gl.NewVariable(in[pos])
								pos++
							}
							kept = append(kept, chip.HashNToMNoPad(vs, ms[h]))
							keptH = append(keptH, chip.HashNoPad(vs))
						}
						var out []frontend.Variable
						for h := 0; h < nh; h++ {
							for _, x := range kept[h] {
								out = append(out, x.Limb)
							}
							for _, x := range keptH[h] {
								out = append(out, x.Limb)
							}
						}
						return out
					}
					var want []ref.F
					for h := 0; h < nh; h++ {
						want = append(want, ref.HashNToMNoPad(ins[h], ms[h])...)
						want = append(want, ref.HashNToMNoPad(ins[h], 4)...)
					}
					got, res := gadget.EngineEval(engine.Options{Face: engine.Native}, fn, flat)
					o.Events += events(res)
					if !res.AcceptedHonestly() || len(got) != len(want) {
						return fw.Violate("hash_failed:retain", fmt.Sprintf("%d hashes on one chip: %s", nh, resStr(res)))
					}
					for i := range want {
						if !got[i].IsUint64() || got[i].Uint64() != want[i] {
							return fw.Violate("earlier_hash_result_changed_by_later_call", fmt.Sprintf("%d hashes on one chip, results read afterwards: value %d = %s, want %d", nh, i, got[i], want[i]))
						}
					}
					o.Inc("retained_result_sequences")
				case "hash", "ntom":
					n := c.Int("n")
					m := 4
					if c.Kind == "ntom" {
						m = c.Int("m")
					}
					vals := make([]*big.Int, n)
					res0 := make([]ref.F, n)
					nonCanon := 0
					for i := range vals {
						v := randGL(r)
						res0[i] = v
						vals[i] = bu(v)
						if c.Kind == "hash" && r.Intn(3) == 0 {
							k := big.NewInt(int64(1 + r.Intn(5)))
							switch r.Intn(6) {
							case 0:
								k = big.NewInt(int64(r.Intn(1 << 30)))
							case 1:
								// the hash reduces its inputs first: every multiple the reduction admits
								k = []*big.Int{new(big.Int).Add(pow2(64), big.NewInt(3)), pow2(100), new(big.Int).Sub(pow2(143), big.NewInt(1)), pow2(63)}[r.Intn(4)]
							}
							vals[i] = new(big.Int).Add(vals[i], new(big.Int).Mul(bigP, k))
							nonCanon++
						}
					}
					want := ref.HashNToMNoPad(res0, m)
					fn := func(api frontend.API, in []frontend.Variable) []frontend.Variable {
						chip := poseidon.NewGoldilocksChip(api)
						vs := make([]gl.Variable, len(in))
						for i := range in {
							vs[i] = gl.NewVariable(in[i])
						}
						var out []frontend.Variable
						if c.Kind == "hash" {
							h := chip.HashNoPad(vs)
							for _, x := range h {
								out = append(out, x.Limb)
							}
						} else {
							for _, x := range chip.HashNToMNoPad(vs, m) {
								out = append(out, x.Limb)
							}
						}
						return out
					}
					face := engine.Native
					if c.Int("k")%2 == 1 {
						face = engine.Plain
					}
					got, res := gadget.EngineEval(engine.Options{Face: face}, fn, vals)
					o.Events += events(res)
					if io, bad := inconclusiveIf(res); bad {
						return io
					}
					if !res.AcceptedHonestly() {
						return fw.Violate("hash_failed:"+c.Kind, fmt.Sprintf("n=%d m=%d: %s %s", n, m, resStr(res), res.Msg))
					}
					if len(got) != m {
						return fw.Violate("wrong_output_count:"+c.Kind, fmt.Sprintf("n=%d: %d outputs, want %d", n, len(got), m))
					}
					for i := range want {
						if !got[i].IsUint64() || got[i].Uint64() != want[i] {
							return fw.Violate("wrong_hash_output:"+c.Kind, fmt.Sprintf("n=%d m=%d inputs %v: out[%d]=%s want %d", n, m, vals, i, got[i], want[i]))
						}
					}
					o.Inc("hashes_checked")
					o.Add("noncanonical_inputs", nonCanon)
					o.Sample = map[string]any{"len": n, "outputs": m, "noncanonical": nonCanon}
				case "func":
					s := c09State(r, 4+c.Int("i")%3)
					var evs []struct {
						seq  uint64
						name string
						st   [24]uintptr
					}
					_, res0 := gadget.EngineEval(engine.Options{Face: engine.Native, OnHint: func(ev *engine.HintEvent) {
						evs = append(evs, struct {
							seq  uint64
							name string
							st   [24]uintptr
						}{ev.Seq, ev.Name, ev.Stack})
					}}, poseidonPermGadget, stateIn(s))
					if !res0.AcceptedHonestly() {
						return fw.Inconcl("recording run: " + resStr(res0))
					}
					pick := evs[r.Intn(len(evs))]
					next := uint64(0)
					for _, e := range evs {
						if e.seq > pick.seq && e.name == pick.name && e.st == pick.st {
							next = e.seq
							break
						}
					}
					fams := familiesFor(pick.name)
					if len(fams) == 0 {
						return fw.Outcome{Trivial: true}
					}
					fam := fams[r.Intn(len(fams))]
					var fired, differ, skip bool
					pol := seqPolicy{Seq: pick.seq, Hint: pick.name, Fam: fam, Rnd: randBig(r, bigR), fired: &fired, differ: &differ, skip: &skip}
					got, res := gadget.EngineEval(engine.Options{Face: engine.Native, Policy: pol}, poseidonPermGadget, stateIn(s))
					o.Events += events(res) + len(evs)
					if skip || !fired || !differ {
						return fw.Outcome{Trivial: true}
					}
					if res.Verdict == engine.Accept {
						want := ref.Poseidon(s)
						same := true
						for i := range want {
							if got[i].Cmp(bu(want[i])) != 0 {
								same = false
							}
						}
						return fw.Violate("permutation_not_a_function:"+fam.Name, fmt.Sprintf("state %v: substituting %s at hint %d (%s) was ACCEPTED (output equal to reference: %v)", s, fam.Name, pick.seq, pick.name, same))
					}
					inScope := res.Substituted && res.InScope && (next == 0 || res.FailSeq <= next)
					if res.Verdict == engine.Reject && !inScope {
						return fw.Violate("site_accepts_alternative:"+pick.name+":"+fam.Name, fmt.Sprintf("state %v: %s at hint %d (%s) passed the site's own constraints; failed only later at %s", s, fam.Name, pick.seq, pick.name, resStr(res)))
					}
					o.Inc("substitutions_rejected_" + pick.name)
					o.Sample = map[string]any{"hint": pick.name, "seq": pick.seq, "family": fam.Name, "hints_in_permutation": len(evs)}
				case "solver":
					cp := ctx.Once("perm/r1cs", func() any {
						cc, err := gadget.Compile("r1cs", poseidonPermGadget, 12, 12, gadget.PadCommit, nil)
						if err != nil {
							return err
						}
						return cc
					})
					cc, ok := cp.(*gadget.Compiled)
					if !ok {
						return fw.Inconcl(fmt.Sprintf("compile: %v", cp))
					}
					s := c09State(r, 4)
					want := ref.Poseidon(s)
					outs := make([]*big.Int, 12)
					for i := range outs {
						outs[i] = bu(want[i])
					}
					in := stateIn(s)
					if err := cc.Solve(in, outs); err != nil {
						return fw.Violate("solver_rejects_reference_permutation", fmt.Sprintf("state %v: %v", s, err))
					}
					// adversary on the real solver: wrapped quotient at the n-th ReduceHint whose
					// input exceeds 2^128 (the S-box reductions), outputs taken from an engine run
					// that continues with the substituted values
					target := 1 + r.Intn(40)
					fam := familyByName([]string{"wrap_k1", "wrap_k2", "shift_rem_plus_p", "field_solved_quotient"}[c.Int("i")%4])
					rnd := randBig(r, bigR)
					cnt := 0
					var targetX *big.Int
					pol := nthBigReduce{n: target, fam: fam, rnd: rnd, cnt: &cnt, x: &targetX}
					got, res := gadget.EngineEval(engine.Options{Face: engine.Native, Policy: pol, Collect: true}, poseidonPermGadget, in)
					o.Events += events(res)
					if targetX == nil {
						return fw.Outcome{Trivial: true}
					}
					engineAccepted := res.Verdict == engine.Accept
					done := false
					ov := func(m *big.Int, hin []*big.Int, hout []*big.Int) error {
						h := []*big.Int{new(big.Int), new(big.Int)}
						if err := gl.ReduceHint(m, hin, h); err != nil {
							return err
						}
						if !done && hin[0].Cmp(targetX) == 0 {
							done = true
							if alt := fam.F(hin, h, rnd); alt != nil {
								h = alt
							}
						}
						hout[0].Set(h[0])
						hout[1].Set(h[1])
						return nil
					}
					if err := cc.Solve(in, got, solver.OverrideHint(solver.GetHintID(gl.ReduceHint), ov)); err == nil {
						diff := false
						for i := range got {
							if got[i].Cmp(outs[i]) != 0 {
								diff = true
							}
						}
						return fw.Violate("solver_accepts_second_permutation_output:"+fam.Name, fmt.Sprintf("state %v: gnark's R1CS solver accepted %s at S-box reduction %d; output differs from reference: %v", s, fam.Name, target, diff))
					}
					if engineAccepted {
						return fw.Inconcl(fmt.Sprintf("engine accepted %s at S-box reduction %d but gnark's solver rejects it", fam.Name, target))
					}
					o.Inc("solver_rejected_" + fam.Name)
					o.Sample = map[string]any{"family": fam.Name, "sbox_reduction": target, "constraints": cc.CS.GetNbConstraints()}
				case "commit":
					var outs [][]frontend.Variable
					var states []ref.State
					for i := 0; i < 12; i++ {
						states = append(states, c09State(r, i%7))
					}
					body := func(api frontend.API) {
						chip := poseidon.NewGoldilocksChip(api) // ONE chip for the whole sequence
						for _, s := range states {
							var st poseidon.GoldilocksState
							for i := range st {
								st[i] = gl.NewVariable(s[i])
							}
							out := chip.Poseidon(st)
							ov := make([]frontend.Variable, 12)
							for i := range ov {
								ov[i] = out[i].Limb
							}
							outs = append(outs, ov)
						}
					}
					var res engine.Result
					if c.Str("face") == "native" {
						res = harnRunOpt(engine.Options{Face: engine.Native}, func(api frontend.API) error { body(api); return nil })
					} else {
						res = harnRunCommitPadded(body, gadget.PadCommit)
					}
					o.Events += events(res)
					if !res.AcceptedHonestly() {
						return fw.Violate("permutation_failed:commit", resStr(res))
					}
					for k, s := range states {
						want := ref.Poseidon(s)
						for i := range want {
							if engine.Value(outs[k][i]).Cmp(bu(want[i])) != 0 {
								return fw.Violate("wrong_permutation_output:commit", fmt.Sprintf("state %v", s))
							}
						}
						o.Inc("permutations_checked")
					}
				}
				return o
			},
		}
	})

	register("C10", c10Prop)
}

// nthBigReduce substitutes at the n-th ReduceHint whose input exceeds 2^128.
type nthBigReduce struct {
	n   int
	fam family
	rnd *big.Int
	cnt *int
	x   **big.Int
}

func (p nthBigReduce) NeedSite() bool { return false }
func (p nthBigReduce) Substitute(ev *engine.HintEvent) ([]*big.Int, bool) {
	if ev.Name != "ReduceHint" || ev.Inputs[0].BitLen() <= 128 || ev.Honest == nil {
		return nil, false
	}
	*p.cnt++
	if *p.cnt != p.n {
		return nil, false
	}
	alt := p.fam.F(ev.Inputs, ev.Honest, p.rnd)
	if alt == nil {
		return nil, false
	}
	*p.x = new(big.Int).Set(ev.Inputs[0])
	return alt, true
}

// ---- C10 ----

func frBig(e fr.Element) *big.Int { var b big.Int; e.BigInt(&b); return &b }

func c10BNState(r *rand.Rand, kind int) ref.BNState {
	var s ref.BNState
	edge := []*big.Int{big.NewInt(0), big.NewInt(1), new(big.Int).Sub(bigR, big.NewInt(1)), pow2(253), pow2(64)}
	for i := range s {
		var b *big.Int
		switch kind {
		case 0:
			b = big.NewInt(0)
		case 1:
			b = edge[2]
		case 2:
			b = edge[r.Intn(len(edge))]
		default:
			b = randBig(r, bigR)
		}
		s[i].SetBigInt(b)
	}
	return s
}

func c10Prop() *fw.Prop {
	toVecGadget := func(api frontend.API, in []frontend.Variable) []frontend.Variable {
		chip := poseidon.NewBN254Chip(api)
		var out []frontend.Variable
		for _, v := range chip.ToVec(in[0]) {
			out = append(out, v.Limb)
		}
		return out
	}
	return &fw.Prop{
		ID:    "C10",
		Level: "exploration",
		Rule:  "cases = 'perm' (4-element BN254 state with edge values 0, 1, r-1, 2^253 and random) vs. the PoseidonBN128 port of the Rust crate (constants parsed from the Rust file, validated on the four iden3 vectors); 'hash' (Goldilocks input length 0..30) -> HashNoPad, HashOrNoop (<=3 shortcut), vs. reference; 'twotoone'; 'tovec' (hash values 0, 1, 2^56-1, 2^56, 2^253, r-1, random) vs. 7-byte little-endian chunking; 'inject' pairs of canonical inputs of length <=3 differing in one limb/position/length must pack to different elements and distinct hashes to distinct chunk vectors; 'solver' ToVec on compiled R1CS/SCS with the bit-decomposition hint overridden by the bits of h+r (must be rejected). Non-trivial = outputs compared; distinct by case id. Also: the digest as a circuit constant in ToVec, and a compiled R1CS / SCS gadget hashing one variable in several positions, a computed first element, the same leaf twice, prefixes of one backing array before the whole array, chained two-to-one compression and the shortcut.",
		Assumptions: []string{
			"the reference PoseidonBN128 uses the Rust crate's constants (independent of the Go tables) and is validated on the crate's iden3 test vectors at start",
		},
		MinEvents: 10000,
		Setup:     func(ctx *fw.Ctx) error { return refSelfTest(false) },
		Gen: func(ctx *fw.Ctx) []fw.Case {
			var cs []fw.Case
			np := 40
			if !ctx.Quick {
				np = 6000
			}
			for i := 0; i < np; i++ {
				cs = append(cs, fw.Case{ID: fmt.Sprintf("perm/%d", i), Kind: "perm", P: map[string]any{"i": i}})
			}
			reps := 2
			if !ctx.Quick {
				reps = 80
			}
			for _, n := range []int{63, 64, 65, 135, 189, 190, 191, 192, 193, 194, 200, 256, 257, 400} {
				cs = append(cs, fw.Case{ID: fmt.Sprintf("hash/%d/long", n), Kind: "hash", P: map[string]any{"n": n, "k": 0}})
			}
			for n := 0; n <= 30; n++ {
				for k := 0; k < reps; k++ {
					cs = append(cs, fw.Case{ID: fmt.Sprintf("hash/%d/%d", n, k), Kind: "hash", P: map[string]any{"n": n, "k": k}})
				}
			}
			nt := 30
			if !ctx.Quick {
				nt = 3000
			}
			for i := 0; i < nt; i++ {
				cs = append(cs, fw.Case{ID: fmt.Sprintf("twotoone/%d", i), Kind: "twotoone", P: map[string]any{"i": i}})
				cs = append(cs, fw.Case{ID: fmt.Sprintf("tovec/%d", i), Kind: "tovec", P: map[string]any{"i": i}})
				cs = append(cs, fw.Case{ID: fmt.Sprintf("inject/%d", i), Kind: "inject", P: map[string]any{"i": i}})
			}
			for _, sys := range []string{"r1cs", "scs"} {
				cs = append(cs, fw.Case{ID: "solver/" + sys, Kind: "solver", P: map[string]any{"sys": sys}})
				cs = append(cs, fw.Case{ID: "compiled/" + sys, Kind: "compiled", P: map[string]any{"sys": sys}})
			}
			nsq := 4
			if !ctx.Quick {
				nsq = 200
			}
			for i := 0; i < nsq; i++ {
				cs = append(cs, fw.Case{ID: fmt.Sprintf("seq/%d", i), Kind: "seq", P: map[string]any{"i": i}})
			}
			return cs
		},
		Exec: func(ctx *fw.Ctx, c fw.Case) fw.Outcome {
			var o fw.Outcome
			r := ctx.Rand(c.ID)
			eq := func(got *big.Int, want fr.Element) bool { return got.Cmp(frBig(want)) == 0 }
			switch c.Kind {
			case "perm":
				s := c10BNState(r, c.Int("i")%5)
				want := ref.BNPermute(s)
				in := []*big.Int{frBig(s[0]), frBig(s[1]), frBig(s[2]), frBig(s[3])}
				fn := func(api frontend.API, vin []frontend.Variable) []frontend.Variable {
					chip := poseidon.NewBN254Chip(api)
					out := chip.Poseidon(poseidon.BN254State{vin[0], vin[1], vin[2], vin[3]})
					return out[:]
				}
				got, res := gadget.EngineEval(engine.Options{Face: engine.Native}, fn, in)
				o.Events += events(res) + int(res.Stats.Muls)
				if !res.AcceptedHonestly() {
					return fw.Violate("bn254_permutation_failed", resStr(res))
				}
				for i := range want {
					if !eq(got[i], want[i]) {
						return fw.Violate("wrong_bn254_permutation", fmt.Sprintf("state %v: word %d = %s", in, i, got[i]))
					}
				}
				o.Inc("permutations_checked")
				o.Sample = map[string]any{"state0": in[0].String(), "out0": got[0].String()}
			case "hash":
				n := c.Int("n")
				vals := make([]ref.F, n)
				in := make([]*big.Int, n)
				for i := range vals {
					vals[i] = randGL(r)
					in[i] = bu(vals[i])
				}
				fn := func(api frontend.API, vin []frontend.Variable) []frontend.Variable {
					chip := poseidon.NewBN254Chip(api)
					vs := make([]gl.Variable, len(vin))
					for i := range vin {
						vs[i] = gl.NewVariable(vin[i])
					}
					return []frontend.Variable{chip.HashNoPad(vs), chip.HashOrNoop(vs)}
				}
				got, res := gadget.EngineEval(engine.Options{Face: engine.Native}, fn, in)
				o.Events += events(res) + int(res.Stats.Muls)
				if !res.AcceptedHonestly() {
					return fw.Violate("bn254_hash_failed", fmt.Sprintf("n=%d %s", n, resStr(res)))
				}
				if !eq(got[0], ref.BNHashNoPad(vals)) {
					return fw.Violate("wrong_bn254_hash_no_pad", fmt.Sprintf("n=%d inputs %v: %s", n, vals, got[0]))
				}
				if !eq(got[1], ref.BNHashOrNoop(vals)) {
					return fw.Violate("wrong_bn254_hash_or_noop", fmt.Sprintf("n=%d inputs %v: %s", n, vals, got[1]))
				}
				o.Inc("hashes_checked")
				if n <= 3 {
					o.Inc("shortcut_cases")
				}
				o.Sample = map[string]any{"len": n}
			case "seq":
				// hashes of many different lengths, compressions and conversions on ONE chip in ONE circuit
				type job struct {
					vals []ref.F
					outs []frontend.Variable
				}
				var jobs []*job
				for k := 0; k < 24; k++ {
					n := r.Intn(31)
					if k%5 == 4 {
						n = []int{0, 3, 4, 9, 10}[r.Intn(5)]
					}
					j := &job{vals: make([]ref.F, n)}
					for i := range j.vals {
						j.vals[i] = randGL(r)
					}
					jobs = append(jobs, j)
				}
				res := harnRunOpt(engine.Options{Face: engine.Native}, func(api frontend.API) error {
					chip := poseidon.NewBN254Chip(api)
					for _, j := range jobs {
						vs := make([]gl.Variable, len(j.vals))
						for i := range vs {
							vs[i] = gl.NewVariable(j.vals[i])
						}
						h := chip.HashNoPad(vs)
						hn := chip.HashOrNoop(vs)
						t := chip.TwoToOne(h, hn)
						j.outs = []frontend.Variable{h, hn, t}
						for _, x := range chip.ToVec(t) {
							j.outs = append(j.outs, x.Limb)
						}
					}
					return nil
				})
				o.Events += events(res) + int(res.Stats.Muls)
				if !res.AcceptedHonestly() {
					return fw.Violate("bn254_sequence_failed", resStr(res))
				}
				for _, j := range jobs {
					h, hn := ref.BNHashNoPad(j.vals), ref.BNHashOrNoop(j.vals)
					t := ref.BNTwoToOne(h, hn)
					if !eq(engine.Value(j.outs[0]), h) || !eq(engine.Value(j.outs[1]), hn) || !eq(engine.Value(j.outs[2]), t) {
						return fw.Violate("wrong_bn254_hash_in_sequence", fmt.Sprintf("inputs %v (length %d) hashed after other inputs on the same chip", j.vals, len(j.vals)))
					}
					for i, w := range ref.BNToVec(t) {
						if engine.Value(j.outs[3+i]).Cmp(bu(w)) != 0 {
							return fw.Violate("tovec_wrong_chunk_in_sequence", fmt.Sprintf("chunk %d", i))
						}
					}
					o.Inc("sequence_hashes_checked")
				}
			case "twotoone":
				s := c10BNState(r, 2+c.Int("i")%2)
				fn := func(api frontend.API, vin []frontend.Variable) []frontend.Variable {
					return []frontend.Variable{poseidon.NewBN254Chip(api).TwoToOne(vin[0], vin[1])}
				}
				got, res := gadget.EngineEval(engine.Options{Face: engine.Native}, fn, []*big.Int{frBig(s[0]), frBig(s[1])})
				o.Events += events(res) + int(res.Stats.Muls)
				if !res.AcceptedHonestly() || !eq(got[0], ref.BNTwoToOne(s[0], s[1])) {
					return fw.Violate("wrong_two_to_one", fmt.Sprintf("%v %v", frBig(s[0]), frBig(s[1])))
				}
				o.Inc("two_to_one_checked")
			case "tovec":
				edge := []*big.Int{big.NewInt(0), big.NewInt(1), new(big.Int).Sub(pow2(56), big.NewInt(1)), pow2(56), pow2(253), new(big.Int).Sub(bigR, big.NewInt(1)), pow2(224), new(big.Int).Sub(pow2(224), big.NewInt(1)),
					pow2(112), pow2(168), new(big.Int).Add(pow2(200), pow2(100)), pow2(8), new(big.Int).Sub(pow2(168), big.NewInt(1)), new(big.Int).Lsh(bigP, 56)}
				var h *big.Int
				if i := c.Int("i"); i < len(edge) {
					h = edge[i]
				} else {
					h = randBig(r, bigR)
				}
				var he fr.Element
				he.SetBigInt(h)
				want := ref.BNToVec(he)
				for _, face := range []engine.Face{engine.Native, engine.Plain} {
					got, res := gadget.EngineEval(engine.Options{Face: face}, toVecGadget, []*big.Int{h})
					o.Events += events(res)
					if !res.AcceptedHonestly() {
						return fw.Violate("tovec_failed", fmt.Sprintf("h=%s %s", h, resStr(res)))
					}
					if len(got) != len(want) {
						return fw.Violate("tovec_wrong_length", fmt.Sprintf("h=%s: %d chunks", h, len(got)))
					}
					for i := range want {
						if got[i].Cmp(bu(want[i])) != 0 {
							return fw.Violate("tovec_wrong_chunk", fmt.Sprintf("h=%s chunk %d = %s want %d", h, i, got[i], want[i]))
						}
					}
				}
				// the digest as a circuit CONSTANT (a verifier key fixed in the circuit is one)
				{
					var outs []gl.Variable
					rc := harnRunOpt(engine.Options{Face: engine.Native}, func(api frontend.API) error {
						outs = poseidon.NewBN254Chip(api).ToVec(h)
						return nil
					})
					o.Events += events(rc)
					if !rc.AcceptedHonestly() {
						return fw.Violate("tovec_failed", fmt.Sprintf("constant h=%s %s", h, resStr(rc)))
					}
					if len(outs) != len(want) {
						return fw.Violate("tovec_wrong_length", fmt.Sprintf("constant h=%s: %d chunks, want %d", h, len(outs), len(want)))
					}
					for i := range want {
						if engine.Value(outs[i].Limb).Cmp(bu(want[i])) != 0 {
							return fw.Violate("tovec_wrong_chunk", fmt.Sprintf("constant h=%s chunk %d = %s want %d", h, i, engine.Value(outs[i].Limb), want[i]))
						}
					}
					o.Inc("tovec_constant_checked")
				}
				o.Inc("tovec_checked")
				o.Sample = map[string]any{"hash": h.String(), "chunks": want}
			case "inject":
				// two distinct canonical inputs of length <= 3: packed elements must differ
				n := 1 + r.Intn(3)
				a := make([]ref.F, n)
				for i := range a {
					a[i] = randGL(r)
				}
				b := append([]ref.F(nil), a...)
				switch r.Intn(4) {
				case 0:
					b[r.Intn(n)] ^= 1 << uint(r.Intn(63))
				case 1:
					b[r.Intn(n)] = randGL(r)
				case 2:
					if n < 3 {
						b = append(b, 0) // trailing zero: different length, same packing is NOT a collision of lengths <= 3? it is: report as info
					} else {
						b[0], b[1] = b[1], b[0]
					}
				case 3:
					b[n-1] = ref.Add(b[n-1], 1)
				}
				for i := range b {
					b[i] = ref.Reduce64(b[i])
				}
				same := len(a) == len(b)
				if same {
					for i := range a {
						if a[i] != b[i] {
							same = false
						}
					}
				}
				if same {
					return fw.Outcome{Trivial: true}
				}
				fn := func(api frontend.API, vin []frontend.Variable) []frontend.Variable {
					vs := make([]gl.Variable, len(vin))
					for i := range vin {
						vs[i] = gl.NewVariable(vin[i])
					}
					return []frontend.Variable{poseidon.NewBN254Chip(api).HashOrNoop(vs)}
				}
				toIn := func(x []ref.F) []*big.Int {
					o := make([]*big.Int, len(x))
					for i := range x {
						o[i] = bu(x[i])
					}
					return o
				}
				ga, ra := gadget.EngineEval(engine.Options{Face: engine.Native}, fn, toIn(a))
				gb, rb := gadget.EngineEval(engine.Options{Face: engine.Native}, fn, toIn(b))
				o.Events += events(ra) + events(rb) + 2
				if !ra.AcceptedHonestly() || !rb.AcceptedHonestly() {
					return fw.Violate("hash_or_noop_failed", resStr(ra))
				}
				if len(a) == len(b) && ga[0].Cmp(gb[0]) == 0 {
					return fw.Violate("packing_collision", fmt.Sprintf("%v and %v pack to %s", a, b, ga[0]))
				}
				if len(a) != len(b) && ga[0].Cmp(gb[0]) == 0 {
					// trailing zero elements: plonky2's hash_or_noop has the same behaviour (leaves of one tree all have the same width)
					o.Inc("info_same_packing_for_different_lengths")
				}
				// chunking: distinct hashes -> distinct chunk vectors
				va, _ := gadget.EngineEval(engine.Options{Face: engine.Native}, toVecGadget, []*big.Int{ga[0]})
				vb, _ := gadget.EngineEval(engine.Options{Face: engine.Native}, toVecGadget, []*big.Int{gb[0]})
				if ga[0].Cmp(gb[0]) != 0 {
					eqv := len(va) == len(vb)
					for i := range va {
						if eqv && va[i].Cmp(vb[i]) != 0 {
							eqv = false
						}
					}
					if eqv {
						return fw.Violate("chunking_collision", fmt.Sprintf("%s and %s", ga[0], gb[0]))
					}
				}
				o.Inc("injectivity_pairs_checked")
			case "compiled":
				// the hash functions on really compiled systems (builders may update a MulAcc
				// operand in place): permutation, sponge with one variable in several positions
				// and with a computed first element, hashing the same leaf twice, two-to-one
				// compression chained on one chip, the short-input shortcut. in = [a,b,c,s,t,w0..w3]
				sys := c.Str("sys")
				fn := func(api frontend.API, in []frontend.Variable) []frontend.Variable {
					chip := poseidon.NewBN254Chip(api)
					a, b, cc := gl.NewVariable(in[0]), gl.NewVariable(in[1]), gl.NewVariable(in[2])
					x := gl.NewVariable(api.MulAcc(api.Mul(in[3], 1), in[3], in[4])) // s + s*t, spare capacity
					perm := chip.Poseidon(poseidon.BN254State{in[5], in[6], in[7], in[8]})
					out := append([]frontend.Variable{}, perm[:]...)
					out = append(out, chip.HashNoPad([]gl.Variable{a, a, b, a, cc, b, b}))
					out = append(out, chip.HashNoPad([]gl.Variable{x, a, b, cc}))
					out = append(out, chip.HashNoPad([]gl.Variable{x, a, b, cc}))
					out = append(out, chip.HashNoPad([]gl.Variable{b, x, a, a, x, x, cc, cc, a, b}))
					t1 := chip.TwoToOne(perm[0], perm[1])
					t2 := chip.TwoToOne(t1, perm[2])
					t3 := chip.TwoToOne(perm[3], t2)
					out = append(out, t1, t2, t3)
					out = append(out, chip.HashOrNoop([]gl.Variable{a}), chip.HashOrNoop([]gl.Variable{a, a}), chip.HashOrNoop([]gl.Variable{x, a, x}), chip.HashOrNoop([]gl.Variable{a, b, cc, x}))
					out = append(out, chip.HashNoPad([]gl.Variable{a, b, cc})) // a, b, c must still be themselves
					// prefixes of ONE backing array hashed before the whole array: hashing must not
					// write into the caller's storage beyond the slice it was given
					buf := []gl.Variable{a, b, cc, x, b, a, x, cc, a, b, b, cc, x, a}
					for _, n := range []int{4, 5, 10, 11, 13} {
						out = append(out, chip.HashNoPad(buf[:n]))
					}
					out = append(out, chip.HashOrNoop(buf[:2]), chip.HashNoPad(buf))
					return out
				}
				comp, err := gadget.Compile(sys, fn, 9, 23, gadget.PadCommit, nil)
				if err != nil {
					return fw.Inconcl("compile: " + err.Error())
				}
				n := 4
				if !ctx.Quick {
					n = 40
				}
				for k := 0; k < n; k++ {
					a, b, cc := randGL(r), randGL(r), randGL(r)
					sv, tv := uint64(r.Intn(1<<16)), uint64(r.Intn(1<<16))
					x := sv + sv*tv
					st := c10BNState(r, k%5)
					in := []*big.Int{bu(a), bu(b), bu(cc), bu(sv), bu(tv), frBig(st[0]), frBig(st[1]), frBig(st[2]), frBig(st[3])}
					perm := ref.BNPermute(st)
					t1 := ref.BNTwoToOne(perm[0], perm[1])
					t2 := ref.BNTwoToOne(t1, perm[2])
					t3 := ref.BNTwoToOne(perm[3], t2)
					h2 := ref.BNHashNoPad([]ref.F{x, a, b, cc})
					want := []fr.Element{perm[0], perm[1], perm[2], perm[3],
						ref.BNHashNoPad([]ref.F{a, a, b, a, cc, b, b}), h2, h2, ref.BNHashNoPad([]ref.F{b, x, a, a, x, x, cc, cc, a, b}),
						t1, t2, t3,
						ref.BNHashOrNoop([]ref.F{a}), ref.BNHashOrNoop([]ref.F{a, a}), ref.BNHashOrNoop([]ref.F{x, a, x}), ref.BNHashOrNoop([]ref.F{a, b, cc, x}),
						ref.BNHashNoPad([]ref.F{a, b, cc})}
					{
						buf := []ref.F{a, b, cc, x, b, a, x, cc, a, b, b, cc, x, a}
						for _, n := range []int{4, 5, 10, 11, 13} {
							want = append(want, ref.BNHashNoPad(buf[:n]))
						}
						want = append(want, ref.BNHashOrNoop(buf[:2]), ref.BNHashNoPad(buf))
					}
					outs := make([]*big.Int, len(want))
					for i := range want {
						outs[i] = frBig(want[i])
					}
					// the engine must agree with the reference on the same gadget ...
					got, res := gadget.EngineEval(engine.Options{Face: engine.Native}, fn, in)
					if !res.AcceptedHonestly() {
						return fw.Violate("bn254_hash_failed", resStr(res))
					}
					for i := range want {
						if got[i].Cmp(outs[i]) != 0 {
							return fw.Violate("wrong_bn254_output:shared_operands", fmt.Sprintf("output %d = %s, reference %s", i, got[i], outs[i]))
						}
					}
					// ... and the compiled system must accept exactly the reference values
					if err := comp.Solve(in, outs); err != nil {
						return fw.Violate("compiled_system_rejects_reference_hashes:"+sys, fmt.Sprintf("a=%d b=%d c=%d x=%d: %s", a, b, cc, x, trunc(err.Error(), 160)))
					}
					bad := append([]*big.Int(nil), outs...)
					bad[k%len(bad)] = new(big.Int).Add(bad[k%len(bad)], big.NewInt(1))
					if err := comp.Solve(in, bad); err == nil {
						return fw.Violate("solver_accepts_wrong_hash:"+sys, fmt.Sprintf("output %d", k%len(bad)))
					}
					o.Inc("compiled_hash_agreements_" + sys)
					o.Events += events(res) + 2
				}
				o.Sample = map[string]any{"system": sys, "constraints": comp.CS.GetNbConstraints()}
			case "solver":
				sys := c.Str("sys")
				cc, err := gadget.Compile(sys, toVecGadget, 1, 5, gadget.PadCommit, nil)
				if err != nil {
					return fw.Inconcl("compile: " + err.Error())
				}
				n := 6
				if !ctx.Quick {
					n = 40
				}
				for k := 0; k < n; k++ {
					h := randBig(r, new(big.Int).Sub(pow2(254), bigR)) // h + r < 2^254: the alias exists
					var he fr.Element
					he.SetBigInt(h)
					want := ref.BNToVec(he)
					outs := make([]*big.Int, 5)
					for i := range outs {
						outs[i] = bu(want[i])
					}
					if err := cc.Solve([]*big.Int{h}, outs); err != nil {
						return fw.Violate("solver_rejects_reference_chunks:"+sys, fmt.Sprintf("h=%s: %v", h, err))
					}
					// alias attack: bits of h + r
					alias := new(big.Int).Add(h, bigR)
					var ae fr.Element
					_ = ae
					mask := new(big.Int).SetUint64(1<<56 - 1)
					aouts := make([]*big.Int, 5)
					for i := range aouts {
						aouts[i] = new(big.Int).And(new(big.Int).Rsh(alias, uint(56*i)), mask)
					}
					ov := func(_ *big.Int, hin []*big.Int, hout []*big.Int) error {
						src := hin[0]
						if hin[0].Cmp(h) == 0 && len(hout) == 254 {
							src = alias
						}
						for i := range hout {
							hout[i].SetUint64(uint64(src.Bit(i)))
						}
						return nil
					}
					if err := cc.Solve([]*big.Int{h}, aouts, solver.OverrideHint(solver.GetHintID(stdbits.GetHints()[1]), ov)); err == nil {
						return fw.Violate("solver_accepts_aliased_decomposition:"+sys, fmt.Sprintf("h=%s: chunks of h+r accepted", h))
					}
					o.Inc("alias_attacks_rejected_" + sys)
					o.Events += 2
				}
				o.Sample = map[string]any{"system": sys, "constraints": cc.CS.GetNbConstraints()}
			}
			return o
		},
	}
}
