package props

import (
	"encoding/json"
	"fmt"
	"math/big"
	"math/rand"
	"os"
	"path/filepath"
	"reflect"
	"sort"
	"strings"

	"github.com/consensys/gnark-crypto/ecc"
	"github.com/consensys/gnark-crypto/ecc/bn254/fr"
	"github.com/consensys/gnark/frontend"
	gl "github.com/wormhole-foundation/example-near-light-client/goldilocks"
	"github.com/wormhole-foundation/example-near-light-client/types"
	"github.com/wormhole-foundation/example-near-light-client/variables"
	"github.com/wormhole-foundation/example-near-light-client/verifier"

	"verifharness/circ"
	"verifharness/fw"
)

// C19 — proof and circuit-data deserialization is faithful and position-preserving.

type docGen struct {
	r        *rand.Rand
	expected map[string]*big.Int // leaf path -> value
	order    []string
}

func (g *docGen) u64() uint64 {
	switch g.r.Intn(8) {
	case 0:
		return ^uint64(0)
	case 1:
		return 0
	case 2:
		return P - 1 + uint64(g.r.Intn(3))
	}
	return g.r.Uint64()
}

func (g *docGen) hash() *big.Int {
	switch g.r.Intn(8) {
	case 0:
		return new(big.Int).Add(bigR, big.NewInt(int64(g.r.Intn(5)))) // >= r
	case 1:
		return new(big.Int).Sub(bigR, big.NewInt(1))
	case 2:
		return big.NewInt(int64(g.r.Intn(3)))
	case 3:
		return new(big.Int).Sub(pow2(256), big.NewInt(int64(1+g.r.Intn(9))))
	}
	return randBig(g.r, bigR)
}

func (g *docGen) put(path string, v *big.Int) {
	g.expected[path] = v
	g.order = append(g.order, path)
}

func (g *docGen) cap(path string, n int) []string {
	out := make([]string, n)
	for i := range out {
		h := g.hash()
		out[i] = h.String()
		g.put(fmt.Sprintf("%s[%d]", path, i), h)
	}
	return out
}

func (g *docGen) exts(path string, n int) [][]uint64 {
	out := make([][]uint64, n)
	for i := range out {
		out[i] = []uint64{g.u64(), g.u64()}
		g.put(fmt.Sprintf("%s[%d][0].Limb", path, i), bu(out[i][0]))
		g.put(fmt.Sprintf("%s[%d][1].Limb", path, i), bu(out[i][1]))
	}
	return out
}

// genProofDoc builds a random-shape proof document and the expected leaf values.
func genProofDoc(r *rand.Rand) (map[string]any, *docGen, int) {
	g := &docGen{r: r, expected: map[string]*big.Int{}}
	sz := func(max int) int { return r.Intn(max + 1) }
	npi := sz(20)
	pis := make([]uint64, npi)
	for i := range pis {
		pis[i] = g.u64()
		g.put(fmt.Sprintf("PublicInputs[%d].Limb", i), bu(pis[i]))
	}
	proof := map[string]any{}
	proof["wires_cap"] = g.cap("Proof.WiresCap", sz(17))
	proof["plonk_zs_partial_products_cap"] = g.cap("Proof.PlonkZsPartialProductsCap", sz(17))
	proof["quotient_polys_cap"] = g.cap("Proof.QuotientPolysCap", sz(17))
	proof["openings"] = map[string]any{
		"constants":        g.exts("Proof.Openings.Constants", sz(6)),
		"plonk_sigmas":     g.exts("Proof.Openings.PlonkSigmas", sz(12)),
		"wires":            g.exts("Proof.Openings.Wires", sz(20)),
		"plonk_zs":         g.exts("Proof.Openings.PlonkZs", sz(3)),
		"plonk_zs_next":    g.exts("Proof.Openings.PlonkZsNext", sz(3)),
		"partial_products": g.exts("Proof.Openings.PartialProducts", sz(8)),
		"quotient_polys":   g.exts("Proof.Openings.QuotientPolys", sz(8)),
	}
	nsteps := sz(3)
	ccaps := make([][]string, nsteps)
	for i := range ccaps {
		ccaps[i] = g.cap(fmt.Sprintf("Proof.OpeningProof.CommitPhaseMerkleCaps[%d]", i), sz(17))
	}
	nrounds := sz(4)
	rounds := make([]any, nrounds)
	for i := range rounds {
		base := fmt.Sprintf("Proof.OpeningProof.QueryRoundProofs[%d]", i)
		neps := sz(5)
		eps := make([]any, neps)
		for j := range eps {
			w := sz(10)
			leaf := make([]uint64, w)
			for k := range leaf {
				leaf[k] = g.u64()
				g.put(fmt.Sprintf("%s.InitialTreesProof.EvalsProofs[%d].Elements[%d].Limb", base, j, k), bu(leaf[k]))
			}
			sib := g.cap(fmt.Sprintf("%s.InitialTreesProof.EvalsProofs[%d].MerkleProof.Siblings", base, j), sz(12))
			eps[j] = []any{leaf, map[string]any{"siblings": sib}}
		}
		ns := sz(3)
		steps := make([]any, ns)
		for j := range steps {
			ev := g.exts(fmt.Sprintf("%s.Steps[%d].Evals", base, j), sz(17))
			sib := g.cap(fmt.Sprintf("%s.Steps[%d].MerkleProof.Siblings", base, j), sz(9))
			steps[j] = map[string]any{"evals": ev, "merkle_proof": map[string]any{"siblings": sib}}
		}
		rounds[i] = map[string]any{"initial_trees_proof": map[string]any{"evals_proofs": eps}, "steps": steps}
	}
	fp := g.exts("Proof.OpeningProof.FinalPoly.Coeffs", sz(17))
	// trailing zero coefficients / elements are values like any other (a reader that
	// "normalises" them away drops positions)
	if len(fp) > 0 && r.Intn(3) == 0 {
		for k := len(fp) - 1; k >= 0 && k >= len(fp)-1-r.Intn(3); k-- {
			fp[k] = []uint64{0, 0}
			g.put(fmt.Sprintf("Proof.OpeningProof.FinalPoly.Coeffs[%d][0].Limb", k), big.NewInt(0))
			g.put(fmt.Sprintf("Proof.OpeningProof.FinalPoly.Coeffs[%d][1].Limb", k), big.NewInt(0))
		}
	}
	pow := g.u64()
	g.put("Proof.OpeningProof.PowWitness.Limb", bu(pow))
	proof["opening_proof"] = map[string]any{
		"commit_phase_merkle_caps": ccaps,
		"query_round_proofs":       rounds,
		"final_poly":               map[string]any{"coeffs": fp},
		"pow_witness":              pow,
	}
	return map[string]any{"proof": proof, "public_inputs": pis}, g, npi
}

func writeDoc(dir, name string, v any) (string, error) {
	os.MkdirAll(dir, 0o755)
	b, err := json.Marshal(v)
	if err != nil {
		return "", err
	}
	p := filepath.Join(dir, name)
	return p, os.WriteFile(p, b, 0o644)
}

func writeRaw(dir, name string, b []byte) string {
	os.MkdirAll(dir, 0o755)
	p := filepath.Join(dir, name)
	os.WriteFile(p, b, 0o644)
	return p
}

// readProofGuard runs the repository's readers, mapping panics to refused.
func readProofGuard(path string) (pwi variables.ProofWithPublicInputs, refused bool, msg string) {
	defer func() {
		if r := recover(); r != nil {
			refused = true
			msg = trunc(fmt.Sprint(r), 100)
		}
	}()
	pwi, _ = variables.DeserializeProofWithPublicInputs(types.ReadProofWithPublicInputs(path))
	return
}

func witnessGuard(a frontend.Circuit) (vals []*big.Int, err error) {
	defer func() {
		if r := recover(); r != nil {
			err = fmt.Errorf("panic: %v", trunc(fmt.Sprint(r), 100))
		}
	}()
	w, e := frontend.NewWitness(a, ecc.BN254.ScalarField())
	if e != nil {
		return nil, e
	}
	vec, ok := w.Vector().(fr.Vector)
	if !ok {
		return nil, fmt.Errorf("unexpected witness vector type %T", w.Vector())
	}
	for i := range vec {
		var b big.Int
		vec[i].BigInt(&b)
		vals = append(vals, &b)
	}
	return vals, nil
}

func c19Dir() string {
	return filepath.Join(fw.VerifRoot(), "scratch", fmt.Sprintf("c19_%d", os.Getpid()))
}

// corruptions of one value inside a real proof document (textual edits on the JSON tree)
type corruption struct {
	name   string
	listed bool // the property lists this malformation: it must be refused
	apply  func(doc map[string]any, r *rand.Rand) bool
}

func jget(m any, path ...string) any {
	cur := m
	for _, p := range path {
		cur = cur.(map[string]any)[p]
	}
	return cur
}

func c19Corruptions() []corruption {
	setCap := func(v any) func(map[string]any, *rand.Rand) bool {
		return func(d map[string]any, r *rand.Rand) bool {
			c := jget(d, "proof", "wires_cap").([]any)
			c[r.Intn(len(c))] = v
			return true
		}
	}
	setSibling := func(v any) func(map[string]any, *rand.Rand) bool {
		return func(d map[string]any, r *rand.Rand) bool {
			rounds := jget(d, "proof", "opening_proof", "query_round_proofs").([]any)
			rd := rounds[r.Intn(len(rounds))].(map[string]any)
			eps := jget(rd, "initial_trees_proof", "evals_proofs").([]any)
			ep := eps[r.Intn(len(eps))].([]any)
			s := ep[1].(map[string]any)["siblings"].([]any)
			s[r.Intn(len(s))] = v
			return true
		}
	}
	setOpening := func(v any) func(map[string]any, *rand.Rand) bool {
		return func(d map[string]any, r *rand.Rand) bool {
			w := jget(d, "proof", "openings", "wires").([]any)
			w[r.Intn(len(w))].([]any)[r.Intn(2)] = v
			return true
		}
	}
	setLeaf := func(v any) func(map[string]any, *rand.Rand) bool {
		return func(d map[string]any, r *rand.Rand) bool {
			rounds := jget(d, "proof", "opening_proof", "query_round_proofs").([]any)
			rd := rounds[r.Intn(len(rounds))].(map[string]any)
			eps := jget(rd, "initial_trees_proof", "evals_proofs").([]any)
			leaf := eps[r.Intn(len(eps))].([]any)[0].([]any)
			leaf[r.Intn(len(leaf))] = v
			return true
		}
	}
	big65 := json.Number("18446744073709551616")
	return []corruption{
		{"cap_nonnumeric_string", true, setCap("hello")},
		{"cap_hex_string", true, setCap("0x1f")},
		{"cap_empty_string", true, setCap("")},
		{"cap_decimal_with_letters", true, setCap("123abc")},
		{"cap_fractional_string", true, setCap("12.5")},
		{"cap_number_instead_of_string", true, setCap(json.Number("123"))},
		{"sibling_nonnumeric_string", true, setSibling("zz")},
		{"sibling_hex_string", true, setSibling("0xdeadbeef")},
		{"sibling_empty_string", true, setSibling("")},
		{"opening_negative", true, setOpening(json.Number("-1"))},
		{"opening_fractional", true, setOpening(json.Number("1.5"))},
		{"opening_over_64_bits", true, setOpening(big65)},
		{"opening_string", true, setOpening("17")},
		{"leaf_negative", true, setLeaf(json.Number("-7"))},
		{"leaf_fractional", true, setLeaf(json.Number("0.25"))},
		{"leaf_over_64_bits", true, setLeaf(json.Number("99999999999999999999999"))},
		{"pow_witness_negative", true, func(d map[string]any, _ *rand.Rand) bool {
			jget(d, "proof", "opening_proof").(map[string]any)["pow_witness"] = json.Number("-3")
			return true
		}},
		{"pow_witness_over_64_bits", true, func(d map[string]any, _ *rand.Rand) bool {
			jget(d, "proof", "opening_proof").(map[string]any)["pow_witness"] = big65
			return true
		}},
		{"public_input_negative", true, func(d map[string]any, r *rand.Rand) bool {
			p := d["public_inputs"].([]any)
			p[r.Intn(len(p))] = json.Number("-1")
			return true
		}},
		{"public_input_fractional", true, func(d map[string]any, r *rand.Rand) bool {
			p := d["public_inputs"].([]any)
			p[r.Intn(len(p))] = json.Number("3.7")
			return true
		}},
		{"scalar_for_cap_list", true, func(d map[string]any, _ *rand.Rand) bool {
			jget(d, "proof").(map[string]any)["wires_cap"] = "123"
			return true
		}},
		{"scalar_for_openings_list", true, func(d map[string]any, _ *rand.Rand) bool {
			jget(d, "proof", "openings").(map[string]any)["wires"] = json.Number("5")
			return true
		}},
		{"scalar_for_extension_pair", true, func(d map[string]any, r *rand.Rand) bool {
			w := jget(d, "proof", "openings", "wires").([]any)
			w[r.Intn(len(w))] = json.Number("5")
			return true
		}},
		{"extension_element_with_one_coordinate", true, func(d map[string]any, r *rand.Rand) bool {
			w := jget(d, "proof", "openings", "wires").([]any)
			k := r.Intn(len(w))
			w[k] = []any{w[k].([]any)[0]}
			return true
		}},
		{"extension_element_without_coordinates", true, func(d map[string]any, r *rand.Rand) bool {
			fp := jget(d, "proof", "opening_proof", "final_poly").(map[string]any)["coeffs"].([]any)
			fp[r.Intn(len(fp))] = []any{}
			return true
		}},
		{"info_extension_element_with_three_coordinates", false, func(d map[string]any, r *rand.Rand) bool {
			rounds := jget(d, "proof", "opening_proof", "query_round_proofs").([]any)
			rd := rounds[r.Intn(len(rounds))].(map[string]any)
			st := rd["steps"].([]any)
			ev := st[r.Intn(len(st))].(map[string]any)["evals"].([]any)
			k := r.Intn(len(ev))
			ev[k] = append(append([]any{}, ev[k].([]any)...), json.Number("5"))
			return true
		}},
		{"scalar_for_siblings_list", true, func(d map[string]any, r *rand.Rand) bool {
			rounds := jget(d, "proof", "opening_proof", "query_round_proofs").([]any)
			rd := rounds[r.Intn(len(rounds))].(map[string]any)
			st := rd["steps"].([]any)
			st[r.Intn(len(st))].(map[string]any)["merkle_proof"].(map[string]any)["siblings"] = "1"
			return true
		}},
		{"scalar_for_eval_proof_tuple", true, func(d map[string]any, r *rand.Rand) bool {
			rounds := jget(d, "proof", "opening_proof", "query_round_proofs").([]any)
			rd := rounds[r.Intn(len(rounds))].(map[string]any)
			eps := jget(rd, "initial_trees_proof", "evals_proofs").([]any)
			eps[r.Intn(len(eps))] = json.Number("9")
			return true
		}},
		{"scalar_for_query_rounds_list", true, func(d map[string]any, _ *rand.Rand) bool {
			jget(d, "proof", "opening_proof").(map[string]any)["query_round_proofs"] = json.Number("28")
			return true
		}},
		// not in the property's list: reported, never judged
		{"info_cap_signed_decimal_string", false, setCap("-5")},
		{"info_cap_whitespace_string", false, setCap(" 12")},
		{"info_pow_witness_null", false, func(d map[string]any, _ *rand.Rand) bool {
			jget(d, "proof", "opening_proof").(map[string]any)["pow_witness"] = nil
			return true
		}},
	}
}

// c19CompareProof compares every leaf of a read proof with the generator's record.
func c19CompareProof(pwi *variables.ProofWithPublicInputs, g *docGen) (key, detail string) {
	got := map[string]*big.Int{}
	for _, l := range circ.Leaves(pwi) {
		v := l.Get()
		if bi, ok := v.(*big.Int); ok && bi == nil {
			return "value_replaced_by_nil", l.Path
		}
		got[l.Path] = l.Big()
	}
	if len(got) != len(g.expected) {
		return "leaf_count_differs", fmt.Sprintf("%d leaves read, %d values written", len(got), len(g.expected))
	}
	for p, want := range g.expected {
		gv, ok := got[p]
		if !ok {
			return "position_missing:" + circ.KindOf(p), p
		}
		if new(big.Int).Mod(gv, bigR).Cmp(new(big.Int).Mod(want, bigR)) != 0 || (strings.HasSuffix(p, ".Limb") && gv.Cmp(want) != 0) {
			return "value_differs:" + circ.KindOf(p), fmt.Sprintf("%s: read %s, document has %s", p, gv, want)
		}
	}
	return "", ""
}

// c19ReqSeq reads several documents one after the other through the request-body readers
// (the web API's path) in one process: every result must match its own document when read
// and still match it after the later reads; a document lacking a key must give the same
// result as through the file reader (nothing may be carried over from an earlier document).
func c19ReqSeq(r *rand.Rand, dir, fname string) fw.Outcome {
	var o fw.Outcome
	type rd struct {
		p variables.ProofWithPublicInputs
		g *docGen
	}
	readReq := func(raw []byte) (p variables.ProofWithPublicInputs, ok bool) {
		ok = true
		defer func() {
			if rr := recover(); rr != nil {
				ok = false
			}
		}()
		p, _ = variables.DeserializeProofWithPublicInputs(types.ReadProofWithPublicInputsFromRequest(raw))
		return
	}
	n := 2 + r.Intn(3)
	// (a) the raw results of several reads are kept and turned into assignments afterwards
	{
		var raws []types.ProofWithPublicInputsRaw
		var gens []*docGen
		for i := 0; i < n; i++ {
			doc, g, _ := genProofDoc(r)
			raw, _ := json.Marshal(doc)
			ok := true
			func() {
				defer func() {
					if rr := recover(); rr != nil {
						ok = false
					}
				}()
				raws = append(raws, types.ReadProofWithPublicInputsFromRequest(raw))
			}()
			if !ok {
				return fw.Violate("wellformed_document_refused", fmt.Sprintf("request read #%d of a sequence", i))
			}
			gens = append(gens, g)
		}
		for i := range raws {
			var p variables.ProofWithPublicInputs
			ok := true
			func() {
				defer func() {
					if rr := recover(); rr != nil {
						ok = false
					}
				}()
				p, _ = variables.DeserializeProofWithPublicInputs(raws[i])
			}()
			if !ok {
				return fw.Violate("earlier_result_changed_by_later_read:unusable", fmt.Sprintf("raw result of request read #%d of %d cannot be turned into an assignment after the later reads", i, n))
			}
			if k, d := c19CompareProof(&p, gens[i]); k != "" {
				return fw.Violate("earlier_result_changed_by_later_read:"+k, fmt.Sprintf("raw result of request read #%d of %d, turned into an assignment after the later reads: %s", i, n, d))
			}
			o.Events += len(gens[i].expected)
		}
	}
	var reads []rd
	for i := 0; i < n; i++ {
		doc, g, _ := genProofDoc(r)
		raw, _ := json.Marshal(doc)
		p, ok := readReq(raw)
		if !ok {
			return fw.Violate("wellformed_document_refused", fmt.Sprintf("request read #%d of a sequence", i))
		}
		if k, d := c19CompareProof(&p, g); k != "" {
			return fw.Violate("request_sequence:"+k, fmt.Sprintf("document #%d of %d read through the request reader: %s", i, n, d))
		}
		reads = append(reads, rd{p, g})
		o.Events += len(g.expected)
		for j := range reads[:i] {
			if k, d := c19CompareProof(&reads[j].p, reads[j].g); k != "" {
				return fw.Violate("earlier_result_changed_by_later_read:"+k, fmt.Sprintf("result of request read #%d after read #%d: %s", j, i, d))
			}
		}
	}
	// verifier data: full document, then documents lacking a key; request vs file reader
	g := &docGen{r: r, expected: map[string]*big.Int{}}
	full := map[string]any{"constants_sigmas_cap": g.cap("ConstantSigmasCap", 1+r.Intn(17)), "circuit_digest": g.hash().String()}
	variants := []map[string]any{full,
		{"constants_sigmas_cap": g.cap("x", 1+r.Intn(17))},
		{"circuit_digest": g.hash().String()},
		{},
		full}
	type vres struct {
		ok   bool
		vals []*big.Int
		werr bool
	}
	vdRes := func(read func() variables.VerifierOnlyCircuitData) (res vres) {
		res.ok = true
		var vd variables.VerifierOnlyCircuitData
		func() {
			defer func() {
				if rr := recover(); rr != nil {
					res.ok = false
				}
			}()
			vd = read()
		}()
		if !res.ok {
			return
		}
		// the values read, position by position (a missing value is recorded as such)
		for _, l := range circ.Leaves(&vd) {
			v := l.Get()
			if v == nil {
				res.vals = append(res.vals, big.NewInt(-1))
				continue
			}
			if bi, ok := v.(*big.Int); ok && bi == nil {
				res.vals = append(res.vals, big.NewInt(-1))
				continue
			}
			func() {
				defer func() {
					if rr := recover(); rr != nil {
						res.vals = append(res.vals, big.NewInt(-2))
					}
				}()
				res.vals = append(res.vals, l.Big())
			}()
		}
		a := &verifier.VerifierCircuit{VerifierData: vd, PublicInputs: []gl.Variable{}}
		a.Proof.OpeningProof.PowWitness = gl.NewVariable(0)
		_, err := witnessGuard(a)
		res.werr = err != nil
		return
	}
	for i, v := range variants {
		raw, _ := json.Marshal(v)
		path, _ := writeDoc(dir, fmt.Sprintf("v%d_%s", i, fname), v)
		fr := vdRes(func() variables.VerifierOnlyCircuitData {
			return variables.DeserializeVerifierOnlyCircuitData(types.ReadVerifierOnlyCircuitData(path))
		})
		rr := vdRes(func() variables.VerifierOnlyCircuitData {
			return variables.DeserializeVerifierOnlyCircuitData(types.ReadVerifierOnlyCircuitDataFromRequest(raw))
		})
		os.Remove(path)
		o.Events += 2
		same := fr.ok == rr.ok && fr.werr == rr.werr && len(fr.vals) == len(rr.vals)
		if same {
			for k := range fr.vals {
				if fr.vals[k].Cmp(rr.vals[k]) != 0 {
					same = false
				}
			}
		}
		if !same {
			return fw.Violate("request_reader_differs_from_file_reader:verifier_data", fmt.Sprintf("verifier data variant #%d (keys %v) after earlier request reads: file reader (read ok=%v, witness refused=%v, %d values) vs request reader (read ok=%v, witness refused=%v, %d values)", i, keysOf(v), fr.ok, fr.werr, len(fr.vals), rr.ok, rr.werr, len(rr.vals)))
		}
	}
	o.Inc("request_sequences")
	return o
}

func keysOf(m map[string]any) []string {
	var ks []string
	for k := range m {
		ks = append(ks, k)
	}
	sort.Strings(ks)
	return ks
}

// malformed verifier-only data and common circuit data documents (real documents with one
// value replaced): must be refused at read time or, for verifier data, at witness time.
type docCorruption struct {
	name   string
	listed bool
	apply  func(d map[string]any, r *rand.Rand)
}

func c19VDCorruptions() []docCorruption {
	setCap := func(v any) func(map[string]any, *rand.Rand) {
		return func(d map[string]any, r *rand.Rand) {
			c := d["constants_sigmas_cap"].([]any)
			c[r.Intn(len(c))] = v
		}
	}
	setDig := func(v any) func(map[string]any, *rand.Rand) {
		return func(d map[string]any, _ *rand.Rand) { d["circuit_digest"] = v }
	}
	return []docCorruption{
		{"vd_cap_nonnumeric_string", true, setCap("hello")},
		{"vd_cap_hex_string", true, setCap("0x1f")},
		{"vd_cap_empty_string", true, setCap("")},
		{"vd_cap_decimal_with_letters", true, setCap("77x")},
		{"vd_cap_fractional_string", true, setCap("3.5")},
		{"vd_cap_number_instead_of_string", true, setCap(json.Number("123"))},
		{"vd_digest_nonnumeric_string", true, setDig("digest")},
		{"vd_digest_hex_string", true, setDig("0xabc")},
		{"vd_digest_empty_string", true, setDig("")},
		{"vd_digest_number_instead_of_string", true, setDig(json.Number("5"))},
		{"vd_scalar_for_cap_list", true, func(d map[string]any, _ *rand.Rand) { d["constants_sigmas_cap"] = "12" }},
		{"vd_list_for_digest", true, setDig([]any{"1", "2"})},
		{"info_vd_cap_signed_decimal_string", false, setCap("-5")},
	}
}

func c19CommonCorruptions() []docCorruption {
	at := func(path []string, v any) func(map[string]any, *rand.Rand) {
		return func(d map[string]any, _ *rand.Rand) {
			m := d
			for _, k := range path[:len(path)-1] {
				m = m[k].(map[string]any)
			}
			m[path[len(path)-1]] = v
		}
	}
	big65 := json.Number("18446744073709551616")
	var cs []docCorruption
	fields := [][]string{{"config", "num_wires"}, {"config", "num_routed_wires"}, {"config", "num_challenges"}, {"config", "fri_config", "num_query_rounds"}, {"config", "fri_config", "proof_of_work_bits"},
		{"fri_params", "degree_bits"}, {"fri_params", "config", "cap_height"}, {"quotient_degree_factor"}, {"num_gate_constraints"}, {"num_constants"}, {"num_public_inputs"}, {"num_partial_products"}}
	for _, f := range fields {
		n := strings.Join(f, ".")
		cs = append(cs,
			docCorruption{"common_" + n + "_string", true, at(f, "12")},
			docCorruption{"common_" + n + "_negative", true, at(f, json.Number("-1"))},
			docCorruption{"common_" + n + "_fractional", true, at(f, json.Number("2.5"))},
			docCorruption{"common_" + n + "_over_64_bits", true, at(f, big65)},
			docCorruption{"common_" + n + "_list", true, at(f, []any{json.Number("1")})})
	}
	cs = append(cs,
		docCorruption{"common_k_is_scalar", true, at([]string{"k_is"}, json.Number("7"))},
		docCorruption{"common_k_is_negative_entry", true, func(d map[string]any, r *rand.Rand) {
			k := d["k_is"].([]any)
			k[r.Intn(len(k))] = json.Number("-7")
		}},
		docCorruption{"common_k_is_over_64_bits_entry", true, func(d map[string]any, r *rand.Rand) {
			k := d["k_is"].([]any)
			k[r.Intn(len(k))] = big65
		}},
		docCorruption{"common_k_is_string_entry", true, func(d map[string]any, r *rand.Rand) {
			k := d["k_is"].([]any)
			k[r.Intn(len(k))] = "7"
		}},
		docCorruption{"common_gates_scalar", true, at([]string{"gates"}, "NoopGate")},
		docCorruption{"common_reduction_arity_bits_scalar", true, at([]string{"fri_params", "reduction_arity_bits"}, json.Number("4"))},
		docCorruption{"common_reduction_arity_bits_negative_entry", true, at([]string{"fri_params", "reduction_arity_bits"}, []any{json.Number("4"), json.Number("-4")})},
		docCorruption{"common_selector_indices_scalar", true, at([]string{"selectors_info", "selector_indices"}, json.Number("0"))},
		docCorruption{"common_selector_group_negative", true, func(d map[string]any, _ *rand.Rand) {
			g := d["selectors_info"].(map[string]any)["groups"].([]any)
			g[0].(map[string]any)["start"] = json.Number("-1")
		}},
	)
	return cs
}

func c19DocCorrupt(ctx *fw.Ctx, c fw.Case, r *rand.Rand, dir, fname string) fw.Outcome {
	var o fw.Outcome
	isVD := c.Kind == "corruptvd"
	list := c19CommonCorruptions()
	in := getInst([]string{"A_testdata", "B_random_CGZ"}[c.Int("k")%2])
	src := in.Files.Common
	if isVD {
		list = c19VDCorruptions()
		src = in.Files.VD
	}
	var cor *docCorruption
	for i := range list {
		if list[i].name == c.Str("name") {
			cor = &list[i]
		}
	}
	b, err := os.ReadFile(src)
	if err != nil || cor == nil {
		return fw.Inconcl(fmt.Sprintf("document %s / corruption %s unavailable", src, c.Str("name")))
	}
	dec := json.NewDecoder(strings.NewReader(string(b)))
	dec.UseNumber()
	var doc map[string]any
	if err := dec.Decode(&doc); err != nil {
		return fw.Inconcl(err.Error())
	}
	applied := true
	func() {
		defer func() {
			if rr := recover(); rr != nil {
				applied = false
			}
		}()
		cor.apply(doc, r)
	}()
	if !applied {
		return fw.Inconcl("field of corruption " + cor.name + " not present in the real document")
	}
	path, err := writeDoc(dir, fname, doc)
	if err != nil {
		return fw.Inconcl(err.Error())
	}
	refused, stage := false, "read"
	if isVD {
		for _, viaRequest := range []bool{false, true} {
			refused, stage = false, "read"
			var vd variables.VerifierOnlyCircuitData
			func() {
				defer func() {
					if rr := recover(); rr != nil {
						refused = true
					}
				}()
				if viaRequest {
					raw, _ := os.ReadFile(path)
					vd = variables.DeserializeVerifierOnlyCircuitData(types.ReadVerifierOnlyCircuitDataFromRequest(raw))
				} else {
					vd = variables.DeserializeVerifierOnlyCircuitData(types.ReadVerifierOnlyCircuitData(path))
				}
			}()
			if !refused {
				a := &verifier.VerifierCircuit{PublicInputs: in.PWI.PublicInputs, Proof: in.PWI.Proof, VerifierData: vd}
				if _, werr := witnessGuard(a); werr != nil {
					refused, stage = true, "witness"
				}
			}
			o.Events++
			if cor.listed && !refused {
				return fw.Violate("malformed_value_accepted:"+cor.name, fmt.Sprintf("verifier data with %s was read (request reader: %v) and turned into a witness", cor.name, viaRequest))
			}
		}
	} else {
		func() {
			defer func() {
				if rr := recover(); rr != nil {
					refused = true
				}
			}()
			types.ReadCommonCircuitData(path)
		}()
		o.Events++
		if cor.listed && !refused {
			return fw.Violate("malformed_value_accepted:"+cor.name, "common circuit data with "+cor.name+" was read without an error")
		}
	}
	if !cor.listed {
		o.Trivial = true
		return o
	}
	o.Inc("refused_at_" + stage + "_" + cor.name)
	return o
}

func init() {
	register("C19", func() *fw.Prop {
		return &fw.Prop{
			ID:          "C19",
			Level:       "exploration",
			Rule:        "cases = 'proof' (seeded random-shape proof documents: cap sizes, opening counts, query rounds, steps, leaf widths, sibling counts 0..17; 64-bit values up to 2^64-1, hash strings incl. values >= r and up to 2^256) written to disk, read with the repository's readers, walked by reflection and compared position by position with the generator's expected values (count and order of leaves, values; hashes as residues mod r), then turned into a witness with frontend.NewWitness whose vector must equal the expected residues in schema order; 'vd' the same for verifier-only data; 'common' random configuration documents vs. every field of the returned CommonCircuitData (selector info read by reflection); 'corrupt' (real proof document, one malformed value: non-numeric / hex / empty / fractional strings, negative, fractional, >=2^64 numbers, scalars where lists are expected) must be refused at read time or at witness time; malformations the property does not list (signed decimal string, null) are only reported. Non-trivial = every document (distinct seeds / corruption kinds). Also: the request-body readers (same results as the file readers, sequences of reads with raw results kept, documents lacking keys), malformed verifier-data and common-data documents, extension elements with 0 or 1 coordinates, trailing zero coefficients, signed hash strings as second documents, and the readers used from 12 goroutines under the race detector.",
			Assumptions: []string{"documents are generated by the harness (no plonky2 serializer offline); field names follow the real documents"},
			MinEvents:   10000,
			Gen: func(ctx *fw.Ctx) []fw.Case {
				var cs []fw.Case
				n := 400
				if !ctx.Quick {
					n = 20000
				}
				for i := 0; i < n; i++ {
					cs = append(cs, fw.Case{ID: fmt.Sprintf("proof/%d", i), Kind: "proof", P: map[string]any{"i": i}})
					cs = append(cs, fw.Case{ID: fmt.Sprintf("vd/%d", i), Kind: "vd", P: map[string]any{"i": i}})
					cs = append(cs, fw.Case{ID: fmt.Sprintf("common/%d", i), Kind: "common", P: map[string]any{"i": i}})
				}
				np := 40
				if !ctx.Quick {
					np = 4000
				}
				for i := 0; i < np; i++ {
					cs = append(cs, fw.Case{ID: fmt.Sprintf("pair/%d", i), Kind: "pair", P: map[string]any{"i": i}})
				}
				cs = append(cs, fw.Case{ID: "race/readers", Kind: "race", P: map[string]any{}})
				nq := 60
				if !ctx.Quick {
					nq = 2000
				}
				for i := 0; i < nq; i++ {
					cs = append(cs, fw.Case{ID: fmt.Sprintf("reqseq/%d", i), Kind: "reqseq", P: map[string]any{"i": i}})
				}
				reps := 2
				if !ctx.Quick {
					reps = 40
				}
				for k := 0; k < 2; k++ {
					for _, c := range c19VDCorruptions() {
						cs = append(cs, fw.Case{ID: fmt.Sprintf("corruptvd/%s/%d", c.name, k), Kind: "corruptvd", P: map[string]any{"name": c.name, "k": k}})
					}
					for _, c := range c19CommonCorruptions() {
						cs = append(cs, fw.Case{ID: fmt.Sprintf("corruptcommon/%s/%d", c.name, k), Kind: "corruptcommon", P: map[string]any{"name": c.name, "k": k}})
					}
				}
				for _, c := range c19Corruptions() {
					for k := 0; k < reps; k++ {
						cs = append(cs, fw.Case{ID: fmt.Sprintf("corrupt/%s/%d", c.name, k), Kind: "corrupt", P: map[string]any{"name": c.name, "k": k}})
					}
				}
				return cs
			},
			Exec: func(ctx *fw.Ctx, c fw.Case) fw.Outcome {
				var o fw.Outcome
				r := ctx.Rand(c.ID)
				dir := c19Dir()
				fname := strings.ReplaceAll(c.ID, "/", "_") + ".json"
				defer os.Remove(filepath.Join(dir, fname))
				switch c.Kind {
				case "proof":
					doc, g, npi := genProofDoc(r)
					path, err := writeDoc(dir, fname, doc)
					if err != nil {
						return fw.Inconcl(err.Error())
					}
					pwi, refused, msg := readProofGuard(path)
					if refused {
						return fw.Violate("wellformed_document_refused", "proof document "+c.ID+": "+msg)
					}
					// the web API reads the same documents from request bodies: same result required
					if raw, err := os.ReadFile(path); err == nil {
						var p2 variables.ProofWithPublicInputs
						ok2 := true
						func() {
							defer func() {
								if rr := recover(); rr != nil {
									ok2 = false
								}
							}()
							p2, _ = variables.DeserializeProofWithPublicInputs(types.ReadProofWithPublicInputsFromRequest(raw))
						}()
						if !ok2 {
							return fw.Violate("wellformed_document_refused", "proof document read from a request body: "+c.ID)
						}
						la, lb := circ.Leaves(&pwi), circ.Leaves(&p2)
						if len(la) != len(lb) {
							return fw.Violate("request_reader_differs_from_file_reader", c.ID)
						}
						for i := range la {
							if la[i].Path != lb[i].Path || la[i].Big().Cmp(lb[i].Big()) != 0 {
								return fw.Violate("request_reader_differs_from_file_reader", la[i].Path)
							}
						}
						o.Inc("request_reader_agrees")
					}
					ls := circ.Leaves(&pwi)
					o.Events += len(ls)
					got := map[string]*big.Int{}
					for _, l := range ls {
						v := l.Get()
						if bi, ok := v.(*big.Int); ok && bi == nil {
							return fw.Violate("value_replaced_by_nil", l.Path)
						}
						got[l.Path] = l.Big()
					}
					if len(got) != len(g.expected) {
						return fw.Violate("leaf_count_differs", fmt.Sprintf("%s: %d leaves read, %d values written", c.ID, len(got), len(g.expected)))
					}
					for p, want := range g.expected {
						gv, ok := got[p]
						if !ok {
							return fw.Violate("position_missing:"+circ.KindOf(p), p)
						}
						if new(big.Int).Mod(gv, bigR).Cmp(new(big.Int).Mod(want, bigR)) != 0 {
							return fw.Violate("value_differs:"+circ.KindOf(p), fmt.Sprintf("%s: read %s, document has %s", p, gv, want))
						}
						if circ.KindOf(p) != "" && strings.HasSuffix(p, ".Limb") && gv.Cmp(want) != 0 {
							return fw.Violate("value_differs:"+circ.KindOf(p), fmt.Sprintf("%s: read %s, document has %s", p, gv, want))
						}
					}
					// witness in schema order: public inputs, proof, verifier data
					a := &verifier.VerifierCircuit{PublicInputs: pwi.PublicInputs, Proof: pwi.Proof}
					a.VerifierData.CircuitDigest = big.NewInt(7)
					a.VerifierData.ConstantSigmasCap = []frontend.Variable{}
					vals, werr := witnessGuard(a)
					if werr != nil {
						return fw.Violate("wellformed_document_refused_at_witness", fmt.Sprintf("%s: %v", c.ID, werr))
					}
					// expected order: PublicInputs then the leaves of Proof in struct order then digest
					var exp []*big.Int
					for _, l := range circ.Leaves(&pwi.PublicInputs) {
						exp = append(exp, l.Big())
					}
					for _, l := range circ.Leaves(&pwi.Proof) {
						exp = append(exp, l.Big())
					}
					exp = append(exp, big.NewInt(7))
					if len(vals) != len(exp) {
						return fw.Violate("witness_length_differs", fmt.Sprintf("%s: %d vs %d", c.ID, len(vals), len(exp)))
					}
					for i := range exp {
						if vals[i].Cmp(new(big.Int).Mod(exp[i], bigR)) != 0 {
							return fw.Violate("witness_value_differs", fmt.Sprintf("%s: witness[%d]=%s expected %s", c.ID, i, vals[i], exp[i]))
						}
					}
					o.Add("positions_compared", len(g.expected))
					o.Inc("documents_roundtripped")
					o.Sample = map[string]any{"leaves": len(g.expected), "public_inputs": npi, "witness_len": len(vals)}
				case "vd":
					g := &docGen{r: r, expected: map[string]*big.Int{}}
					capv := g.cap("ConstantSigmasCap", r.Intn(18))
					d := g.hash()
					path, _ := writeDoc(dir, fname, map[string]any{"constants_sigmas_cap": capv, "circuit_digest": d.String()})
					var vd variables.VerifierOnlyCircuitData
					refused := false
					func() {
						defer func() {
							if rr := recover(); rr != nil {
								refused = true
							}
						}()
						vd = variables.DeserializeVerifierOnlyCircuitData(types.ReadVerifierOnlyCircuitData(path))
					}()
					if refused {
						return fw.Violate("wellformed_document_refused", "verifier data "+c.ID)
					}
					g.put("CircuitDigest", d)
					ls := circ.Leaves(&vd)
					o.Events += len(ls)
					if len(ls) != len(g.expected) {
						return fw.Violate("leaf_count_differs", fmt.Sprintf("%s: %d vs %d", c.ID, len(ls), len(g.expected)))
					}
					for _, l := range ls {
						want := g.expected[l.Path]
						if want == nil || new(big.Int).Mod(l.Big(), bigR).Cmp(new(big.Int).Mod(want, bigR)) != 0 {
							return fw.Violate("value_differs:"+l.Kind, fmt.Sprintf("%s: read %s want %v", l.Path, l.Big(), want))
						}
					}
					o.Inc("documents_roundtripped")
				case "common":
					return c19Common(r, dir, fname)
				case "race":
					// the readers under the race detector, used from 12 goroutines at once
					reps := 6
					if !ctx.Quick {
						reps = 16
					}
					reports, work, err := runRaceBinary(reps, "readers")
					if err != nil {
						return fw.Inconcl(err.Error())
					}
					if reports > 0 {
						return fw.Violate("data_race_in_document_readers", fmt.Sprintf("%d race detector reports while documents were read concurrently", reports))
					}
					if v, ok := work["reads_differing_from_single_threaded"].(float64); ok && v > 0 {
						return fw.Violate("concurrent_read_differs_from_single_threaded_read", fmt.Sprintf("%d of the concurrent reads returned other values than a single-threaded read of the same document", int(v)))
					}
					if v, ok := work["concurrent_reads"].(float64); ok {
						o.Add("concurrent_reads_under_race_detector", int(v))
						o.Events += int(v)
					}
					o.Sample = map[string]any{"race_build": work, "reports": reports}
					return o
				case "reqseq":
					return c19ReqSeq(r, dir, fname)
				case "corruptvd", "corruptcommon":
					return c19DocCorrupt(ctx, c, r, dir, fname)
				case "pair":
					// two documents read one after the other in the same process that differ in ONE
					// value (same circuit digest, same everything else): the second assignment must
					// differ from the first at exactly that position
					if c.Int("i")%2 == 0 {
						g := &docGen{r: r, expected: map[string]*big.Int{}}
						capv := g.cap("ConstantSigmasCap", 1+r.Intn(17))
						d := g.hash()
						read := func(cv []string) (variables.VerifierOnlyCircuitData, bool) {
							path, _ := writeDoc(dir, fname, map[string]any{"constants_sigmas_cap": cv, "circuit_digest": d.String()})
							var vd variables.VerifierOnlyCircuitData
							ok := true
							func() {
								defer func() {
									if rr := recover(); rr != nil {
										ok = false
									}
								}()
								vd = variables.DeserializeVerifierOnlyCircuitData(types.ReadVerifierOnlyCircuitData(path))
							}()
							return vd, ok
						}
						v1, ok1 := read(capv)
						k := r.Intn(len(capv))
						nv := g.hash()
						cap2 := append([]string(nil), capv...)
						cap2[k] = nv.String()
						if ev := g.expected[fmt.Sprintf("ConstantSigmasCap[%d]", k)]; c.Int("i")%4 == 2 && new(big.Int).Mod(ev, bigR).Sign() != 0 {
							// (a multiple of r and its negative are the same residue: not judged)
							// the same digits with a minus sign: a different document; it is either
							// refused or gives another residue (never the assignment of the unsigned one)
							neg := new(big.Int).Neg(g.expected[fmt.Sprintf("ConstantSigmasCap[%d]", k)])
							cap2[k] = neg.String()
							v2s, ok2s := read(cap2)
							o.Events += 2
							if !ok1 {
								return fw.Violate("wellformed_document_refused", "verifier data pair "+c.ID)
							}
							if ok2s {
								if _, werr := witnessGuard(&verifier.VerifierCircuit{VerifierData: v2s, PublicInputs: []gl.Variable{}, Proof: variables.Proof{OpeningProof: variables.FriProof{PowWitness: gl.NewVariable(0)}}}); werr == nil {
									l1, l2 := circ.Leaves(&v1), circ.Leaves(&v2s)
									for i := range l1 {
										if l1[i].Path == fmt.Sprintf("ConstantSigmasCap[%d]", k) && i < len(l2) &&
											new(big.Int).Mod(l1[i].Big(), bigR).Cmp(new(big.Int).Mod(l2[i].Big(), bigR)) == 0 {
											return fw.Violate("second_document_not_reflected:verifier_data", fmt.Sprintf("%s: cap entry %d given with a minus sign yields the same assignment as without it", c.ID, k))
										}
									}
								}
							}
							o.Inc("signed_string_pairs_compared")
							return o
						}
						v2, ok2 := read(cap2)
						if !ok1 || !ok2 {
							return fw.Violate("wellformed_document_refused", "verifier data pair "+c.ID)
						}
						o.Events += 2
						l1, l2 := circ.Leaves(&v1), circ.Leaves(&v2)
						if len(l1) != len(l2) {
							return fw.Violate("leaf_count_differs", c.ID)
						}
						for i := range l1 {
							same := new(big.Int).Mod(l1[i].Big(), bigR).Cmp(new(big.Int).Mod(l2[i].Big(), bigR)) == 0
							isK := l1[i].Path == fmt.Sprintf("ConstantSigmasCap[%d]", k)
							changed := new(big.Int).Mod(nv, bigR).Cmp(new(big.Int).Mod(g.expected[fmt.Sprintf("ConstantSigmasCap[%d]", k)], bigR)) != 0
							if isK && changed && same {
								return fw.Violate("second_document_not_reflected:verifier_data", fmt.Sprintf("%s: cap entry %d changed in the document (same digest) but the assignment did not", c.ID, k))
							}
							if isK && new(big.Int).Mod(l2[i].Big(), bigR).Cmp(new(big.Int).Mod(nv, bigR)) != 0 {
								return fw.Violate("second_document_not_reflected:verifier_data", fmt.Sprintf("%s: cap entry %d", c.ID, k))
							}
							if !isK && !same {
								return fw.Violate("unrelated_position_changed:verifier_data", l1[i].Path)
							}
						}
						o.Inc("document_pairs_compared")
						return o
					}
					doc, g, _ := genProofDoc(r)
					if len(g.order) == 0 {
						return fw.Outcome{Trivial: true}
					}
					path, _ := writeDoc(dir, fname, doc)
					p1, ref1, _ := readProofGuard(path)
					// flip one value in the JSON tree: re-generate the same document with the same seed and edit
					b, _ := os.ReadFile(path)
					dec := json.NewDecoder(strings.NewReader(string(b)))
					dec.UseNumber()
					var tree map[string]any
					if err := dec.Decode(&tree); err != nil {
						return fw.Inconcl(err.Error())
					}
					target := ""
					if pis, ok := tree["public_inputs"].([]any); ok && len(pis) > 0 {
						k := r.Intn(len(pis))
						pis[k] = json.Number("12345678901")
						target = fmt.Sprintf("PublicInputs[%d].Limb", k)
					} else if wc, ok := jget(tree, "proof", "wires_cap").([]any); ok && len(wc) > 0 {
						k := r.Intn(len(wc))
						wc[k] = "987654321987654321"
						target = fmt.Sprintf("Proof.WiresCap[%d]", k)
					} else {
						jget(tree, "proof", "opening_proof").(map[string]any)["pow_witness"] = json.Number("424242")
						target = "Proof.OpeningProof.PowWitness.Limb"
					}
					path2, _ := writeDoc(dir, "b_"+fname, tree)
					defer os.Remove(path2)
					p2, ref2, _ := readProofGuard(path2)
					if ref1 || ref2 {
						return fw.Violate("wellformed_document_refused", "proof pair "+c.ID)
					}
					l1, l2 := circ.Leaves(&p1), circ.Leaves(&p2)
					o.Events += len(l1)
					if len(l1) != len(l2) {
						return fw.Violate("leaf_count_differs", c.ID)
					}
					for i := range l1 {
						same := l1[i].Big().Cmp(l2[i].Big()) == 0
						if l1[i].Path == target {
							want := map[string]string{"P": "12345678901", "W": "987654321987654321", "O": "424242"}[target[:1]]
							if target[:5] == "Proof" && target[6] == 'W' {
								want = "987654321987654321"
							} else if target[:5] == "Proof" {
								want = "424242"
							}
							if l2[i].Big().String() != want {
								return fw.Violate("second_document_not_reflected:proof", fmt.Sprintf("%s: %s is %s, document has %s", c.ID, target, l2[i].Big(), want))
							}
						} else if !same {
							return fw.Violate("unrelated_position_changed:proof", l1[i].Path)
						}
					}
					o.Inc("document_pairs_compared")
				case "corrupt":
					var cor corruption
					for _, x := range c19Corruptions() {
						if x.name == c.Str("name") {
							cor = x
						}
					}
					src := getInst([]string{"A_testdata", "B_random_CGZ"}[c.Int("k")%2]).Files.Proof
					b, err := os.ReadFile(src)
					if err != nil {
						return fw.Inconcl(err.Error())
					}
					dec := json.NewDecoder(strings.NewReader(string(b)))
					dec.UseNumber()
					var doc map[string]any
					if err := dec.Decode(&doc); err != nil {
						return fw.Inconcl(err.Error())
					}
					cor.apply(doc, r)
					path, err := writeDoc(dir, fname, doc)
					if err != nil {
						return fw.Inconcl(err.Error())
					}
					// both entry points: the file reader and the request-body reader of the web API
					if c.Int("k")%2 == 1 || cor.listed {
						raw, _ := os.ReadFile(path)
						var p2 variables.ProofWithPublicInputs
						refused2 := false
						func() {
							defer func() {
								if rr := recover(); rr != nil {
									refused2 = true
								}
							}()
							p2, _ = variables.DeserializeProofWithPublicInputs(types.ReadProofWithPublicInputsFromRequest(raw))
						}()
						if !refused2 {
							a := &verifier.VerifierCircuit{PublicInputs: p2.PublicInputs, Proof: p2.Proof}
							a.VerifierData.CircuitDigest = big.NewInt(7)
							a.VerifierData.ConstantSigmasCap = []frontend.Variable{}
							if _, werr := witnessGuard(a); werr != nil {
								refused2 = true
							}
						}
						o.Events++
						if cor.listed && !refused2 {
							return fw.Violate("malformed_value_accepted:request_reader:"+cor.name, "a request body with "+cor.name+" was read and turned into a witness")
						}
						if refused2 {
							o.Inc("request_reader_refused_" + cor.name)
						}
					}
					pwi, refused, msg := readProofGuard(path)
					o.Events++
					stage := "read"
					if !refused {
						a := &verifier.VerifierCircuit{PublicInputs: pwi.PublicInputs, Proof: pwi.Proof}
						a.VerifierData.CircuitDigest = big.NewInt(7)
						a.VerifierData.ConstantSigmasCap = []frontend.Variable{}
						if _, werr := witnessGuard(a); werr != nil {
							refused = true
							stage = "witness"
							msg = trunc(werr.Error(), 80)
						}
					}
					if !cor.listed {
						if refused {
							o.Inc("info_refused_" + cor.name)
						} else {
							o.Inc("info_accepted_" + cor.name)
						}
						o.Trivial = true
						return o
					}
					if !refused {
						return fw.Violate("malformed_value_accepted:"+cor.name, "a document with "+cor.name+" was read and turned into a witness")
					}
					o.Inc("refused_at_" + stage + "_" + cor.name)
					o.Sample = map[string]any{"corruption": cor.name, "stage": stage, "msg": msg}
				}
				return o
			},
		}
	})
}

func c19Common(r *rand.Rand, dir, fname string) fw.Outcome {
	var o fw.Outcome
	u := func() uint64 {
		if r.Intn(6) == 0 {
			return ^uint64(0) - uint64(r.Intn(3))
		}
		return uint64(r.Intn(1 << 20))
	}
	ul := func(n int) []uint64 {
		o := make([]uint64, n)
		for i := range o {
			o[i] = r.Uint64()
		}
		return o
	}
	fc := func() map[string]any {
		return map[string]any{"rate_bits": u(), "cap_height": u(), "proof_of_work_bits": u(), "num_query_rounds": u(), "reduction_strategy": map[string]any{"ConstantArityBits": ul(2)}}
	}
	cfgFri, prmFri := fc(), fc()
	ngates := r.Intn(6)
	ids := gateGrid(true)
	gs := make([]string, ngates)
	for i := range gs {
		gs[i] = ids[r.Intn(len(ids))]
	}
	selIdx := ul(ngates)
	ng := r.Intn(4)
	groups := make([]map[string]any, ng)
	for i := range groups {
		groups[i] = map[string]any{"start": u(), "end": u()}
		switch r.Intn(6) {
		case 0: // an empty range is a value like any other
			groups[i]["end"] = groups[i]["start"]
		case 1: // ordinary small consecutive ranges
			groups[i]["start"] = uint64(3 * i)
			groups[i]["end"] = uint64(3*i + r.Intn(4))
		}
	}
	kis := ul(r.Intn(90))
	arity := ul(r.Intn(4))
	doc := map[string]any{
		"config":                 map[string]any{"num_wires": u(), "num_routed_wires": u(), "num_constants": u(), "use_base_arithmetic_gate": r.Intn(2) == 0, "security_bits": u(), "num_challenges": u(), "zero_knowledge": r.Intn(2) == 0, "max_quotient_degree_factor": u(), "fri_config": cfgFri},
		"fri_params":             map[string]any{"config": prmFri, "hiding": false, "degree_bits": u(), "reduction_arity_bits": arity},
		"gates":                  gs,
		"selectors_info":         map[string]any{"selector_indices": selIdx, "groups": groups},
		"quotient_degree_factor": u(), "num_gate_constraints": u(), "num_constants": u(), "num_public_inputs": u(), "k_is": kis, "num_partial_products": u(),
	}
	path, err := writeDoc(dir, fname, doc)
	if err != nil {
		return fw.Inconcl(err.Error())
	}
	var cd types.CommonCircuitData
	refused := ""
	func() {
		defer func() {
			if rr := recover(); rr != nil {
				refused = fmt.Sprint(rr)
			}
		}()
		cd = types.ReadCommonCircuitData(path)
	}()
	if refused != "" {
		return fw.Violate("wellformed_document_refused", "common data: "+trunc(refused, 100))
	}
	cfg := doc["config"].(map[string]any)
	type chk struct {
		name string
		got  any
		want any
	}
	checks := []chk{
		{"config.num_wires", cd.Config.NumWires, cfg["num_wires"]}, {"config.num_routed_wires", cd.Config.NumRoutedWires, cfg["num_routed_wires"]},
		{"config.num_constants", cd.Config.NumConstants, cfg["num_constants"]}, {"config.use_base_arithmetic_gate", cd.Config.UseBaseArithmeticGate, cfg["use_base_arithmetic_gate"]},
		{"config.security_bits", cd.Config.SecurityBits, cfg["security_bits"]}, {"config.num_challenges", cd.Config.NumChallenges, cfg["num_challenges"]},
		{"config.zero_knowledge", cd.Config.ZeroKnowledge, cfg["zero_knowledge"]}, {"config.max_quotient_degree_factor", cd.Config.MaxQuotientDegreeFactor, cfg["max_quotient_degree_factor"]},
		{"config.fri_config.rate_bits", cd.Config.FriConfig.RateBits, cfgFri["rate_bits"]}, {"config.fri_config.cap_height", cd.Config.FriConfig.CapHeight, cfgFri["cap_height"]},
		{"config.fri_config.proof_of_work_bits", cd.Config.FriConfig.ProofOfWorkBits, cfgFri["proof_of_work_bits"]}, {"config.fri_config.num_query_rounds", cd.Config.FriConfig.NumQueryRounds, cfgFri["num_query_rounds"]},
		{"fri_params.config.rate_bits", cd.FriParams.Config.RateBits, prmFri["rate_bits"]}, {"fri_params.config.cap_height", cd.FriParams.Config.CapHeight, prmFri["cap_height"]},
		{"fri_params.config.proof_of_work_bits", cd.FriParams.Config.ProofOfWorkBits, prmFri["proof_of_work_bits"]}, {"fri_params.config.num_query_rounds", cd.FriParams.Config.NumQueryRounds, prmFri["num_query_rounds"]},
		{"fri_params.degree_bits", cd.FriParams.DegreeBits, doc["fri_params"].(map[string]any)["degree_bits"]}, {"degree_bits", cd.DegreeBits, doc["fri_params"].(map[string]any)["degree_bits"]},
		{"quotient_degree_factor", cd.QuotientDegreeFactor, doc["quotient_degree_factor"]}, {"num_gate_constraints", cd.NumGateConstraints, doc["num_gate_constraints"]},
		{"num_constants", cd.NumConstants, doc["num_constants"]}, {"num_public_inputs", cd.NumPublicInputs, doc["num_public_inputs"]}, {"num_partial_products", cd.NumPartialProducts, doc["num_partial_products"]},
	}
	for _, c := range checks {
		o.Events++
		if !reflect.DeepEqual(c.got, c.want) {
			return fw.Violate("config_field_differs:"+c.name, fmt.Sprintf("%s: read %v, document has %v", c.name, c.got, c.want))
		}
	}
	eqU := func(a, b []uint64) bool {
		if len(a) != len(b) {
			return false
		}
		for i := range a {
			if a[i] != b[i] {
				return false
			}
		}
		return true
	}
	if !eqU(cd.KIs, kis) {
		return fw.Violate("config_field_differs:k_is", fmt.Sprintf("%d vs %d entries", len(cd.KIs), len(kis)))
	}
	if !eqU(cd.FriParams.ReductionArityBits, arity) {
		return fw.Violate("config_field_differs:reduction_arity_bits", "")
	}
	if len(cd.GateIds) != len(gs) {
		return fw.Violate("config_field_differs:gates", "")
	}
	for i := range gs {
		if cd.GateIds[i] != gs[i] {
			return fw.Violate("config_field_differs:gates", fmt.Sprintf("position %d", i))
		}
	}
	// selector info (unexported): read by reflection
	sv := reflect.ValueOf(cd.SelectorsInfo)
	si := sv.FieldByName("selectorIndices")
	if si.Len() != len(selIdx) {
		return fw.Violate("config_field_differs:selector_indices", "length")
	}
	for i := 0; i < si.Len(); i++ {
		if si.Index(i).Uint() != selIdx[i] {
			return fw.Violate("config_field_differs:selector_indices", fmt.Sprintf("position %d", i))
		}
	}
	gv := sv.FieldByName("groups")
	if gv.Len() != len(groups) {
		return fw.Violate("config_field_differs:groups", "length")
	}
	for i := 0; i < gv.Len(); i++ {
		if gv.Index(i).FieldByName("start").Uint() != groups[i]["start"].(uint64) || gv.Index(i).FieldByName("end").Uint() != groups[i]["end"].(uint64) {
			return fw.Violate("config_field_differs:groups", fmt.Sprintf("group %d", i))
		}
	}
	o.Events += len(kis) + len(gs) + len(selIdx)
	o.Inc("documents_roundtripped")
	o.Sample = map[string]any{"gates": len(gs), "k_is": len(kis), "groups": len(groups)}
	return o
}
