package props

import (
	"fmt"
	"math/big"
	"math/rand"
	"strings"
	"sync"

	"github.com/consensys/gnark-crypto/ecc/bn254/fr"
	"github.com/consensys/gnark/frontend"
	"github.com/wormhole-foundation/example-near-light-client/fri"
	gl "github.com/wormhole-foundation/example-near-light-client/goldilocks"
	"github.com/wormhole-foundation/example-near-light-client/types"
	"github.com/wormhole-foundation/example-near-light-client/variables"

	"verifharness/engine"
	"verifharness/fw"
	"verifharness/ref"
)

// C13 — FRI query algebra equals the reference fold, combination and final evaluation.

func bitsOf(x uint64, n int) []frontend.Variable {
	o := make([]frontend.Variable, n)
	for i := range o {
		o[i] = (x >> uint(i)) & 1
	}
	return o
}

func friChipFor(api frontend.API, prm ref.FriParams) (*fri.Chip, *types.CommonCircuitData) {
	cd := &types.CommonCircuitData{}
	cd.FriParams.DegreeBits = uint64(prm.DegreeBits)
	cd.DegreeBits = uint64(prm.DegreeBits)
	cd.FriParams.Config.RateBits = uint64(prm.RateBits)
	cd.FriParams.Config.CapHeight = uint64(prm.CapHeight)
	cd.FriParams.Config.NumQueryRounds = 1
	cd.Config.FriConfig = cd.FriParams.Config
	for _, a := range prm.ArityBits {
		cd.FriParams.ReductionArityBits = append(cd.FriParams.ReductionArityBits, uint64(a))
	}
	return fri.NewChip(api, cd, &cd.FriParams), cd
}

func readQE(q gl.QuadraticExtensionVariable) ref.E {
	return ref.E{engine.Value(q[0].Limb).Uint64(), engine.Value(q[1].Limb).Uint64()}
}

var synthCache sync.Map

type synthKey struct {
	d, rate, steps int
	seed           int64
}

func getSynth(ctx *fw.Ctx, d, rate, steps int) (*ref.FriSynth, error) {
	k := synthKey{d, rate, steps, ctx.Seed}
	if v, ok := synthCache.Load(k); ok {
		if e, isErr := v.(error); isErr {
			return nil, e
		}
		return v.(*ref.FriSynth), nil
	}
	ab := make([]int, steps)
	for i := range ab {
		ab[i] = 4
	}
	prm := ref.FriParams{DegreeBits: d, RateBits: rate, CapHeight: 4, NumQueryRounds: 1, ArityBits: ab}
	s, err := ref.NewFriSynth(ctx.Rand(fmt.Sprintf("synth/%d/%d/%d", d, rate, steps)), prm, []int{3, 5, 2, 4}, 2, 2)
	if err != nil {
		synthCache.Store(k, err)
		return nil, err
	}
	synthCache.Store(k, s)
	return s, nil
}

// circuit-side structures of a synthetic instance
func synthInstanceInfo(s *ref.FriSynth) fri.InstanceInfo {
	var info fri.InstanceInfo
	for _, o := range s.Oracles {
		info.Oracles = append(info.Oracles, fri.OracleInfo{NumPolys: uint64(len(o.Polys))})
	}
	for _, b := range s.Inst.Batches {
		bi := fri.BatchInfo{Point: qeConst(b.Point)}
		for _, p := range b.Polys {
			bi.Polynomials = append(bi.Polynomials, fri.PolynomialInfo{OracleIndex: uint64(p.Oracle), PolynomialInfo: uint64(p.Index)})
		}
		info.Batches = append(info.Batches, bi)
	}
	return info
}

func capVars(c []fr.Element) variables.FriMerkleCap {
	o := make(variables.FriMerkleCap, len(c))
	for i := range c {
		o[i] = frBig(c[i])
	}
	return o
}

func roundVars(q *ref.QueryRound) *variables.FriQueryRound {
	r := &variables.FriQueryRound{}
	for _, ep := range q.Initial {
		e := variables.FriEvalProof{}
		for _, v := range ep.Leaf {
			e.Elements = append(e.Elements, gl.NewVariable(v))
		}
		for _, s := range ep.Siblings {
			e.MerkleProof.Siblings = append(e.MerkleProof.Siblings, frBig(s))
		}
		r.InitialTreesProof.EvalsProofs = append(r.InitialTreesProof.EvalsProofs, e)
	}
	for _, st := range q.Steps {
		s := variables.FriQueryStep{Evals: qes(st.Evals)}
		for _, x := range st.Siblings {
			s.MerkleProof.Siblings = append(s.MerkleProof.Siblings, frBig(x))
		}
		r.Steps = append(r.Steps, s)
	}
	return r
}

// one round: everything the verifier sees (so that each part can be corrupted)
type roundInput struct {
	raw        uint64
	q          ref.QueryRound
	alpha      ref.E
	betas      []ref.E
	reduced    []ref.E
	finalPoly  []ref.E
	caps       [][]fr.Element
	commitCaps [][]fr.Element
}

func runSynthRound(s *ref.FriSynth, in *roundInput) engine.Result {
	return runSynthRoundPol(s, in, nil)
}

func runSynthRoundPol(s *ref.FriSynth, in *roundInput, pol engine.HintPolicy) engine.Result {
	return harnRunOpt(engine.Options{Face: engine.Native, Policy: pol}, func(api frontend.API) error {
		chip, cd := friChipFor(api, s.Prm)
		ch := variables.FriChallenges{FriAlpha: qeConst(in.alpha)}
		for _, b := range in.betas {
			ch.FriBetas = append(ch.FriBetas, qeConst(b))
		}
		proof := &variables.FriProof{FinalPoly: variables.PolynomialCoeffs{Coeffs: qes(in.finalPoly)}}
		for _, c := range in.commitCaps {
			proof.CommitPhaseMerkleCaps = append(proof.CommitPhaseMerkleCaps, capVars(c))
		}
		var caps []variables.FriMerkleCap
		for _, c := range in.caps {
			caps = append(caps, capVars(c))
		}
		nLog := cd.FriParams.DegreeBits + cd.FriParams.Config.RateBits
		chip.VerifVerifyQueryRound(synthInstanceInfo(s), &ch, qes(in.reduced), caps, proof, gl.NewVariable(in.raw), uint64(1)<<nLog, nLog, roundVars(&in.q))
		return nil
	})
}

func cloneRound(q ref.QueryRound) ref.QueryRound {
	var o ref.QueryRound
	for _, ep := range q.Initial {
		o.Initial = append(o.Initial, ref.EvalProof{Leaf: append([]ref.F(nil), ep.Leaf...), Siblings: append([]fr.Element(nil), ep.Siblings...)})
	}
	for _, st := range q.Steps {
		o.Steps = append(o.Steps, ref.QueryStep{Evals: append([]ref.E(nil), st.Evals...), Siblings: append([]fr.Element(nil), st.Siblings...)})
	}
	return o
}

// idxPolicy: adversarial bit decomposition of the query index: the low bits spell another
// index and one high "bit" absorbs the difference (only possible if the decomposition's
// outputs are not all constrained to be boolean).
type idxPolicy struct {
	x      *big.Int
	target uint64
	lde    int
}

func (p idxPolicy) NeedSite() bool { return false }
func (p idxPolicy) Substitute(ev *engine.HintEvent) ([]*big.Int, bool) {
	if (ev.Name != "nBits" && ev.Name != "NBits") || len(ev.Outputs) <= p.lde || ev.Inputs[0].Cmp(p.x) != 0 {
		return nil, false
	}
	out := make([]*big.Int, len(ev.Outputs))
	for i := range out {
		out[i] = new(big.Int)
		if i < p.lde {
			out[i].SetUint64((p.target >> uint(i)) & 1)
		}
	}
	d := new(big.Int).Sub(p.x, new(big.Int).SetUint64(p.target))
	d.Mul(d, new(big.Int).ModInverse(pow2(uint(p.lde)), bigR))
	out[p.lde] = d.Mod(d, bigR)
	return out, true
}

var c13Corruptions = []string{"leaf", "eval_own_c0", "eval_own_c1", "eval_other_c0", "eval_other_c1", "sibling_initial", "sibling_step", "beta_c0", "beta_c1", "alpha_c0", "alpha_c1", "reduced_opening_c0", "reduced_opening_c1", "final_coeff_c0", "final_coeff_c1", "index_low_bit", "index_mid_bit", "index_high_bit", "cap", "commit_cap",
	// differences that a comparison of packed pairs (v0 + v1*2^32) cannot see
	"eval_own_p32", "eval_own_m32", "final_coeff0_p32", "final_coeff0_m32",
	// the running value itself shifted by such a difference (the claimed evaluations stay the
	// committed ones, so every Merkle path is still valid)
	"running_value_p32", "running_value_m32", "running_value_c0", "running_value_c1",
	// two trees of one round wrong in a cancelling way (a check on sums of roots / caps cannot see it)
	"caps_cancelling_pair", "caps_swapped"}

func init() {
	register("C13", func() *fw.Prop {
		return &fw.Prop{
			ID:    "C13",
			Level: "exploration",
			Rule:  "cases = value level (verif hooks): 'subgroup' (domain size 2^4..2^9 every index, 2^15 random indices) calculateSubgroupX vs g*w^bitreverse(index); 'combine' friCombineInitial on random leaves / openings / alpha vs reference; 'fold' computeEvaluation for every within-coset position with random evaluation vectors and betas vs reference Lagrange interpolation; 'final' finalPolyEval vs Horner; round level: 'round' (synthetic FRI instance from the reference's small prover with degree bits 5..13, rate bits 1..3, 1..3 arity-16 steps, oracles of 3/5/2/4 polynomials; query index with every within-coset bit pattern and random high bits) through the repository's verifyQueryRound must ACCEPT, and each single corruption (leaf value, eval at own / other position, initial / step sibling, beta, alpha, reduced opening, final coefficient, index bits, caps) must give the verdict the reference round verifier gives. Betas equal to a coset point and domain points equal to an opening point are not generated (see DESIGN.md §3/C13). Non-trivial = values compared / verdict compared; distinct by case id. Also: every domain size 2^10..2^32 (sampled indices), opening points in the base field / with a zero first coordinate, betas sharing their first coordinate with a coset point, hiding parameters with salted leaves, corruptions invisible to packed / one-sided / summed comparisons (running value shifted by (-k*2^32, +k) or in one coordinate only with all Merkle paths valid, caps of two trees exchanged or moved by +d / -d, structured steps), and the sub-gadgets compiled with a real builder.",
			Assumptions: []string{
				"the reference round verifier is the one that accepts all 140 query rounds of the five real proofs",
				"the synthetic prover checks its own folded codeword is low degree before use",
			},
			MinEvents: 10000,
			Setup:     func(ctx *fw.Ctx) error { return refSelfTest(true) },
			Gen: func(ctx *fw.Ctx) []fw.Case {
				var cs []fw.Case
				for n := 4; n <= 9; n++ {
					cs = append(cs, fw.Case{ID: fmt.Sprintf("subgroup/%d", n), Kind: "subgroup", P: map[string]any{"n": n}})
				}
				// every domain size the field supports (2-adicity 32): sampled indices
				for n := 10; n <= 32; n++ {
					cs = append(cs, fw.Case{ID: fmt.Sprintf("subgroup/%d", n), Kind: "subgroup", P: map[string]any{"n": n}})
				}
				nv := 60
				if !ctx.Quick {
					nv = 300
				}
				for i := 0; i < nv; i++ {
					cs = append(cs, fw.Case{ID: fmt.Sprintf("combine/%d", i), Kind: "combine", P: map[string]any{"i": i}})
					cs = append(cs, fw.Case{ID: fmt.Sprintf("fold/%d", i), Kind: "fold", P: map[string]any{"i": i}})
					cs = append(cs, fw.Case{ID: fmt.Sprintf("final/%d", i), Kind: "final", P: map[string]any{"i": i}})
				}
				cs = append(cs, fw.Case{ID: "compiled/r1cs", Kind: "compiled", P: map[string]any{"sys": "r1cs"}})
				if !ctx.Quick {
					cs = append(cs, fw.Case{ID: "compiled/scs", Kind: "compiled", P: map[string]any{"sys": "scs"}})
				}
				type shape struct{ d, rate, steps int }
				shapes := []shape{{5, 3, 1}, {6, 2, 1}, {9, 3, 2}, {7, 1, 1}}
				if !ctx.Quick {
					shapes = []shape{{5, 3, 1}, {6, 2, 1}, {7, 1, 1}, {8, 3, 1}, {9, 3, 2}, {10, 2, 2}, {11, 1, 2}, {12, 3, 2}, {13, 3, 3}}
				}
				for _, sh := range shapes {
					cs = append(cs, fw.Case{ID: fmt.Sprintf("multiround/d%d-r%d-s%d", sh.d, sh.rate, sh.steps), Kind: "multiround", P: map[string]any{"d": sh.d, "rate": sh.rate, "steps": sh.steps}})
					nq := 16
					if !ctx.Quick {
						nq = 64
					}
					for q := 0; q < nq; q++ {
						cs = append(cs, fw.Case{ID: fmt.Sprintf("round/d%d-r%d-s%d/q%d", sh.d, sh.rate, sh.steps, q), Kind: "round", P: map[string]any{"d": sh.d, "rate": sh.rate, "steps": sh.steps, "q": q}})
					}
				}
				return cs
			},
			Exec: func(ctx *fw.Ctx, c fw.Case) fw.Outcome {
				var o fw.Outcome
				r := ctx.Rand(c.ID)
				switch c.Kind {
				case "subgroup":
					n := c.Int("n")
					var idxs []uint64
					if n <= 9 {
						for i := 0; i < 1<<n; i++ {
							idxs = append(idxs, uint64(i))
						}
					} else {
						for i := 0; i < 200; i++ {
							idxs = append(idxs, r.Uint64()&(uint64(1)<<uint(n)-1))
						}
						idxs = append(idxs, 0, uint64(1)<<uint(n)-1, 1, 2, uint64(1)<<uint(n-1), uint64(1)<<uint(n-2))
					}
					outs := make([]gl.Variable, len(idxs))
					res := harnRunOpt(engine.Options{Face: engine.Native}, func(api frontend.API) error {
						chip, _ := friChipFor(api, ref.FriParams{DegreeBits: n, CapHeight: 4})
						for k, idx := range idxs {
							outs[k] = chip.VerifCalculateSubgroupX(bitsOf(idx, n), uint64(n))
						}
						return nil
					})
					o.Events += events(res)
					if !res.AcceptedHonestly() {
						return fw.Violate("subgroup_x_failed", resStr(res))
					}
					for k, idx := range idxs {
						if got, want := engine.Value(outs[k].Limb).Uint64(), ref.SubgroupX(idx, n); got != want {
							return fw.Violate("wrong_domain_point", fmt.Sprintf("nLog=%d index=%d: circuit %d, reference %d", n, idx, got, want))
						}
					}
					o.Add("domain_points_compared", len(idxs))
					o.Sample = map[string]any{"nLog": n, "indices": len(idxs)}
				case "combine":
					// random instance: oracles of random sizes, two batches
					no := 2 + r.Intn(3)
					sizes := make([]int, no)
					var init []ref.EvalProof
					for i := range sizes {
						sizes[i] = 1 + r.Intn(9)
						leaf := make([]ref.F, sizes[i])
						for j := range leaf {
							leaf[j] = randGL(r)
						}
						init = append(init, ref.EvalProof{Leaf: leaf})
					}
					var inst ref.FriInstance
					inst.NumOracles = no
					for b := 0; b < 2; b++ {
						bt := ref.Batch{Point: randE(r)}
						// structured opening points: in the base field, or with a zero first coordinate
						switch c.Int("i") % 5 {
						case 1:
							bt.Point = ref.E{randGL(r), 0}
						case 2:
							bt.Point = ref.E{0, 1 + randGL(r)%(P-1)}
						}
						for oi := range sizes {
							for k := 0; k < sizes[oi]; k++ {
								if b == 0 || r.Intn(3) == 0 {
									bt.Polys = append(bt.Polys, ref.PolyRef{Oracle: oi, Index: k})
								}
							}
						}
						if len(bt.Polys) == 0 {
							bt.Polys = append(bt.Polys, ref.PolyRef{Oracle: 0, Index: 0})
						}
						inst.Batches = append(inst.Batches, bt)
					}
					// hiding parameters: blinded oracles carry 4 salt elements at the END of the leaf
					hiding := c.Int("i")%7 == 3
					blinding := make([]bool, no)
					if hiding {
						for oi := range blinding {
							blinding[oi] = oi > 0 || r.Intn(2) == 0
							if blinding[oi] {
								for k := 0; k < 4; k++ {
									init[oi].Leaf = append(init[oi].Leaf, randGL(r))
								}
							}
						}
					}
					alpha := c15RandE(r)
					x := randGL(r)
					reduced := []ref.E{randE(r), randE(r)}
					degenerate := c.Int("i")%6 == 5
					if degenerate {
						// the domain point equals an opening point: the quotient is undefined, the
						// reference cannot accept, so the circuit must not either
						inst.Batches[r.Intn(2)].Point = ref.EFrom(x)
					}
					want, ok := ref.CombineInitial(inst, init, alpha, x, reduced)
					if !ok && !degenerate {
						return fw.Outcome{Trivial: true}
					}
					var out gl.QuadraticExtensionVariable
					res := harnRunOpt(engine.Options{Face: engine.Native}, func(api frontend.API) error {
						chip, cd := friChipFor(api, ref.FriParams{DegreeBits: 5, CapHeight: 4})
						cd.FriParams.Hiding = hiding
						var info fri.InstanceInfo
						for oi, s := range sizes {
							info.Oracles = append(info.Oracles, fri.OracleInfo{NumPolys: uint64(s), Blinding: blinding[oi]})
						}
						for _, b := range inst.Batches {
							bi := fri.BatchInfo{Point: qeConst(b.Point)}
							for _, p := range b.Polys {
								bi.Polynomials = append(bi.Polynomials, fri.PolynomialInfo{OracleIndex: uint64(p.Oracle), PolynomialInfo: uint64(p.Index)})
							}
							info.Batches = append(info.Batches, bi)
						}
						var tp variables.FriInitialTreeProof
						for _, ep := range init {
							e := variables.FriEvalProof{}
							for _, v := range ep.Leaf {
								e.Elements = append(e.Elements, gl.NewVariable(v))
							}
							tp.EvalsProofs = append(tp.EvalsProofs, e)
						}
						out = chip.VerifFriCombineInitial(info, tp, qeConst(alpha), qeConst(ref.EFrom(x)), qes(reduced))
						return nil
					})
					o.Events += events(res)
					if degenerate {
						if res.Verdict == engine.Accept {
							return fw.Violate("accepts_undefined_quotient", fmt.Sprintf("friCombineInitial accepted a domain point equal to an opening point (x=%d)", x))
						}
						o.Inc("degenerate_opening_points_rejected")
						return o
					}
					if !res.AcceptedHonestly() {
						return fw.Violate("combine_initial_failed", resStr(res))
					}
					if got := readQE(out); got != want {
						return fw.Violate("wrong_combined_value", fmt.Sprintf("oracles %v alpha %v x %d: circuit %v reference %v", sizes, alpha, x, got, want))
					}
					o.Inc("combinations_compared")
					if hiding {
						o.Inc("combinations_with_salted_leaves")
					}
				case "fold":
					x := randGL(r)
					if x == 0 {
						x = 1
					}
					evals := make([]ref.E, 16)
					for i := range evals {
						evals[i] = c15RandE(r)
					}
					beta := c15RandE(r)
					for within := uint64(0); within < 16; within++ {
						// every third case: beta shares its FIRST coordinate with a point of the coset
						// and has a non-zero second coordinate (not a coset point, not degenerate)
						if c.Int("i")%3 == 1 {
							g16 := ref.PrimitiveRoot(4)
							pt := ref.Mul(x, ref.Exp(g16, 16-ref.ReverseBits(within, 4)))
							for k := r.Intn(16); k > 0; k-- {
								pt = ref.Mul(pt, g16)
							}
							beta = ref.E{pt, 1 + randGL(r)%(P-1)}
						}
						// beta equal to one of the sixteen coset points is the documented degenerate case
						// (the reference returns the stored evaluation, the circuit asserts a non-zero
						// denominator): not judged, only counted
						if beta[1] == 0 {
							g16 := ref.PrimitiveRoot(4)
							pt := ref.Mul(x, ref.Exp(g16, 16-ref.ReverseBits(within, 4)))
							hit := false
							for i := 0; i < 16; i++ {
								if pt == beta[0] {
									hit = true
								}
								pt = ref.Mul(pt, g16)
							}
							if hit {
								o.Inc("info_beta_on_coset_point_not_judged")
								continue
							}
						}
						want := ref.ComputeEvaluation(x, within, 4, evals, beta)
						var out gl.QuadraticExtensionVariable
						res := harnRunOpt(engine.Options{Face: engine.Native}, func(api frontend.API) error {
							chip, _ := friChipFor(api, ref.FriParams{DegreeBits: 5, CapHeight: 4})
							out = chip.VerifComputeEvaluation(gl.NewVariable(x), bitsOf(within, 4), 4, qes(evals), qeConst(beta))
							return nil
						})
						o.Events += events(res)
						if !res.AcceptedHonestly() {
							// beta on a coset point is the documented degenerate case; it is not generated on purpose
							return fw.Violate("compute_evaluation_failed", fmt.Sprintf("x=%d within=%d beta=%v: %s", x, within, beta, resStr(res)))
						}
						if got := readQE(out); got != want {
							return fw.Violate("wrong_fold_value", fmt.Sprintf("x=%d within=%d beta=%v: circuit %v reference %v", x, within, beta, got, want))
						}
						o.Inc("folds_compared")
					}
				case "compiled":
					// the FRI sub-gadgets on a really compiled system, all inputs circuit variables:
					// domain point from index bits, coset fold at beta, final polynomial (7 and 1 coefficients)
					sys := c.Str("sys")
					const nLog = 10
					fn := func(api frontend.API, in []frontend.Variable) []frontend.Variable {
						chip, _ := friChipFor(api, ref.FriParams{DegreeBits: 5, CapHeight: 4})
						for _, b := range in[:nLog] {
							api.AssertIsBoolean(b)
						}
						for _, b := range in[nLog+1 : nLog+5] {
							api.AssertIsBoolean(b)
						}
						qe := func(i int) gl.QuadraticExtensionVariable {
							return gl.QuadraticExtensionVariable{gl.NewVariable(in[i]), gl.NewVariable(in[i+1])}
						}
						sx := chip.VerifCalculateSubgroupX(append([]frontend.Variable(nil), in[:nLog]...), nLog)
						pos := nLog + 5
						evals := make([]gl.QuadraticExtensionVariable, 16)
						for i := range evals {
							evals[i] = qe(pos)
							pos += 2
						}
						beta := qe(pos)
						pos += 2
						fold := chip.VerifComputeEvaluation(gl.NewVariable(in[nLog]), append([]frontend.Variable(nil), in[nLog+1:nLog+5]...), 4, evals, beta)
						c7 := make([]gl.QuadraticExtensionVariable, 7)
						for i := range c7 {
							c7[i] = qe(pos)
							pos += 2
						}
						c1 := []gl.QuadraticExtensionVariable{qe(pos)}
						pos += 2
						pt := qe(pos)
						f7 := chip.VerifFinalPolyEval(variables.PolynomialCoeffs{Coeffs: c7}, pt)
						f1 := chip.VerifFinalPolyEval(variables.PolynomialCoeffs{Coeffs: c1}, pt)
						return []frontend.Variable{sx.Limb, fold[0].Limb, fold[1].Limb, f7[0].Limb, f7[1].Limb, f1[0].Limb, f1[1].Limb}
					}
					var ios []compiledIO
					n := 4
					if !ctx.Quick {
						n = 24
					}
					for len(ios) < n {
						idx := uint64(r.Intn(1 << nLog))
						x := randGL(r)
						if x == 0 {
							x = 1
						}
						within := uint64(r.Intn(16))
						evals := make([]ref.E, 16)
						for i := range evals {
							evals[i] = c15RandE(r)
						}
						beta := ref.E{randGL(r), 1 + randGL(r)%(P-1)} // off the base field: never a coset point
						coeffs := make([]ref.E, 8)
						for i := range coeffs {
							coeffs[i] = c15RandE(r)
						}
						pt := c15RandE(r)
						var in []*big.Int
						for i := 0; i < nLog; i++ {
							in = append(in, bu((idx>>uint(i))&1))
						}
						in = append(in, bu(x))
						for i := 0; i < 4; i++ {
							in = append(in, bu((within>>uint(i))&1))
						}
						for _, e := range evals {
							in = append(in, bu(e[0]), bu(e[1]))
						}
						in = append(in, bu(beta[0]), bu(beta[1]))
						for _, e := range coeffs {
							in = append(in, bu(e[0]), bu(e[1]))
						}
						in = append(in, bu(pt[0]), bu(pt[1]))
						fold := ref.ComputeEvaluation(x, within, 4, evals, beta)
						f7 := ref.PolyEval(coeffs[:7], pt)
						f1 := ref.PolyEval(coeffs[7:], pt)
						ios = append(ios, compiledIO{In: in, Out: []*big.Int{bu(ref.SubgroupX(idx, nLog)), bu(fold[0]), bu(fold[1]), bu(f7[0]), bu(f7[1]), bu(f1[0]), bu(f1[1])}})
					}
					if v, bad := compiledAgree(&o, sys, "fri_subgadgets", fn, nLog+5+32+2+16+2, 7, ios); bad {
						return v
					}
					o.Sample = map[string]any{"system": sys}
				case "final":
					n := r.Intn(20)
					coeffs := make([]ref.E, n)
					for i := range coeffs {
						coeffs[i] = c15RandE(r)
					}
					pt := c15RandE(r)
					var out gl.QuadraticExtensionVariable
					res := harnRunOpt(engine.Options{Face: engine.Native}, func(api frontend.API) error {
						chip, _ := friChipFor(api, ref.FriParams{DegreeBits: 5, CapHeight: 4})
						out = chip.VerifFinalPolyEval(variables.PolynomialCoeffs{Coeffs: qes(coeffs)}, qeConst(pt))
						return nil
					})
					o.Events += events(res) + 1
					if !res.AcceptedHonestly() {
						return fw.Violate("final_poly_eval_failed", resStr(res))
					}
					if got, want := readQE(out), ref.PolyEval(coeffs, pt); got != want {
						return fw.Violate("wrong_final_poly_value", fmt.Sprintf("%d coefficients at %v: circuit %v reference %v", n, pt, got, want))
					}
					o.Inc("final_evaluations_compared")
				case "multiround":
					// one FRI chip verifying several rounds (different indices) in one circuit, valid
					// rounds first and optionally a corrupted one last
					s, err := getSynth(ctx, c.Int("d"), c.Int("rate"), c.Int("steps"))
					if err != nil {
						return fw.Inconcl("synthetic prover: " + err.Error())
					}
					lde := s.Prm.LdeBits()
					for variant := 0; variant < 2; variant++ {
						var ins []*roundInput
						for k := 0; k < 4; k++ {
							raw := uint64(r.Intn(1 << uint(lde)))
							ins = append(ins, &roundInput{raw: raw, q: s.Query(raw), alpha: s.Alpha, betas: s.Betas, reduced: s.Reduced, finalPoly: s.FinalPoly, caps: s.Caps, commitCaps: s.CommitCaps()})
						}
						if variant == 1 {
							last := ins[len(ins)-1]
							last.q = cloneRound(last.q)
							st := r.Intn(len(last.q.Steps))
							pos := (last.raw >> uint(4*st)) & 15
							last.q.Steps[st].Evals[pos][r.Intn(2)] = ref.Add(last.q.Steps[st].Evals[pos][0], 1)
						}
						res := harnRunOpt(engine.Options{Face: engine.Native}, func(api frontend.API) error {
							chip, cd := friChipFor(api, s.Prm)
							nLog := cd.FriParams.DegreeBits + cd.FriParams.Config.RateBits
							for _, in := range ins {
								ch := variables.FriChallenges{FriAlpha: qeConst(in.alpha)}
								for _, b := range in.betas {
									ch.FriBetas = append(ch.FriBetas, qeConst(b))
								}
								proof := &variables.FriProof{FinalPoly: variables.PolynomialCoeffs{Coeffs: qes(in.finalPoly)}}
								for _, cp := range in.commitCaps {
									proof.CommitPhaseMerkleCaps = append(proof.CommitPhaseMerkleCaps, capVars(cp))
								}
								var caps []variables.FriMerkleCap
								for _, cp := range in.caps {
									caps = append(caps, capVars(cp))
								}
								chip.VerifVerifyQueryRound(synthInstanceInfo(s), &ch, qes(in.reduced), caps, proof, gl.NewVariable(in.raw), uint64(1)<<nLog, nLog, roundVars(&in.q))
							}
							return nil
						})
						o.Events += events(res)
						if variant == 0 && !res.AcceptedHonestly() {
							return fw.Violate("rejects_valid_round_sequence", fmt.Sprintf("case %s: four valid rounds on one chip: %s %s", c.ID, resStr(res), res.Msg))
						}
						if variant == 1 && res.Verdict == engine.Accept {
							return fw.Violate("accepts_corrupted_round_after_valid_ones", fmt.Sprintf("case %s", c.ID))
						}
					}
					o.Inc("round_sequences_checked")
				case "round":
					s, err := getSynth(ctx, c.Int("d"), c.Int("rate"), c.Int("steps"))
					if err != nil {
						return fw.Inconcl("synthetic prover: " + err.Error())
					}
					lde := s.Prm.LdeBits()
					q := c.Int("q")
					idx := uint64(q%16) | uint64(r.Intn(1<<uint(lde-4)))<<4
					raw := idx | uint64(r.Int63n(1<<uint(62-lde)))<<uint(lde)
					base := &roundInput{raw: raw, q: s.Query(raw), alpha: s.Alpha, betas: s.Betas, reduced: s.Reduced, finalPoly: s.FinalPoly, caps: s.Caps, commitCaps: s.CommitCaps()}
					if err := s.Verify(raw, &base.q, base.alpha, base.betas, base.reduced, base.finalPoly, base.caps, base.commitCaps); err != nil {
						return fw.Inconcl("reference rejects the synthetic prover's own round: " + err.Error())
					}
					res := runSynthRound(s, base)
					o.Events += events(res)
					if io, bad := inconclusiveIf(res); bad {
						return io
					}
					if !res.AcceptedHonestly() {
						return fw.Violate("rejects_valid_round", fmt.Sprintf("case %s index %d (within-coset %d): %s %s", c.ID, idx, idx&15, resStr(res), res.Msg))
					}
					o.Inc("valid_rounds_accepted")
					o.Inc(fmt.Sprintf("within_coset_pattern_%02d", idx&15))
					// the round data of ANOTHER index presented for this challenge, with a forged bit
					// decomposition of the challenge: the index must be bound to the challenge
					{
						other := (idx + 1 + uint64(r.Intn(1<<uint(lde)-1))) % (1 << uint(lde))
						forged := *base
						forged.q = s.Query(other)
						res3 := runSynthRoundPol(s, &forged, idxPolicy{x: new(big.Int).SetUint64(raw), target: other, lde: lde})
						o.Events += events(res3)
						if res3.Verdict == engine.Accept {
							return fw.Violate("query_index_not_bound_to_challenge", fmt.Sprintf("case %s: challenge %d (index %d) accepted the openings of index %d with a forged bit decomposition", c.ID, raw, idx, other))
						}
						o.Inc("forged_index_decompositions_rejected")
					}
					for ci, corr := range c13Corruptions {
						if ctx.Quick && (q+ci)%3 != 0 {
							continue
						}
						in := *base
						in.q = cloneRound(base.q)
						in.betas = append([]ref.E(nil), base.betas...)
						in.reduced = append([]ref.E(nil), base.reduced...)
						in.finalPoly = append([]ref.E(nil), base.finalPoly...)
						var one fr.Element
						one.SetOne()
						if r.Intn(3) == 0 {
							d := []*big.Int{bigP, new(big.Int).Lsh(bigP, 100), new(big.Int).Lsh(bigP, 64), pow2(64), pow2(128), pow2(192), pow2(56)}[r.Intn(7)]
							one.SetBigInt(d)
						}
						if r.Intn(2) == 0 {
							one.Neg(&one) // either direction: a one-sided comparison must not hide it
						}
						co := 0
						base13 := corr
						if strings.HasSuffix(corr, "_c1") {
							co = 1
						}
						if strings.HasSuffix(corr, "_c0") || strings.HasSuffix(corr, "_c1") {
							base13 = corr[:len(corr)-3]
						}
						shift32 := func(e ref.E, plus bool) ref.E {
							k := uint64(1 + r.Intn(3))
							if plus {
								return ref.E{ref.Sub(e[0], k<<32), ref.Add(e[1], k)}
							}
							return ref.E{ref.Add(e[0], k<<32), ref.Sub(e[1], k)}
						}
						switch base13 {
						case "eval_own_p32", "eval_own_m32":
							st := r.Intn(len(in.q.Steps))
							pos := (idx >> uint(4*st)) & 15
							in.q.Steps[st].Evals[pos] = shift32(in.q.Steps[st].Evals[pos], base13 == "eval_own_p32")
						case "running_value_p32", "running_value_m32", "running_value":
							last := len(in.reduced) - 1
							x := ref.SubgroupX(in.raw%(uint64(1)<<uint(lde)), lde)
							d := shift32(ref.EZero, base13 == "running_value_p32")
							if base13 == "running_value" {
								// exactly one coordinate of the running value moves
								d = ref.EZero
								d[co] = 1 + randGL(r)%(P-1)
							}
							den := ref.ESub(ref.EFrom(x), s.Inst.Batches[last].Point)
							in.reduced[last] = ref.ESub(in.reduced[last], ref.EMul(d, den))
						case "final_coeff0_p32", "final_coeff0_m32":
							in.finalPoly[0] = shift32(in.finalPoly[0], base13 == "final_coeff0_p32")
						case "leaf":
							oi := r.Intn(len(in.q.Initial))
							k := r.Intn(len(in.q.Initial[oi].Leaf))
							in.q.Initial[oi].Leaf[k] = ref.Add(in.q.Initial[oi].Leaf[k], 1)
						case "eval_own":
							st := r.Intn(len(in.q.Steps))
							pos := (idx >> uint(4*st)) & 15
							in.q.Steps[st].Evals[pos][co] = ref.Add(in.q.Steps[st].Evals[pos][co], 1)
						case "eval_other":
							st := r.Intn(len(in.q.Steps))
							pos := ((idx >> uint(4*st)) + 1 + uint64(r.Intn(15))) & 15
							in.q.Steps[st].Evals[pos][co] = ref.Add(in.q.Steps[st].Evals[pos][co], 1)
						case "sibling_initial":
							oi := r.Intn(len(in.q.Initial))
							if len(in.q.Initial[oi].Siblings) == 0 {
								continue
							}
							k := r.Intn(len(in.q.Initial[oi].Siblings))
							in.q.Initial[oi].Siblings[k].Add(&in.q.Initial[oi].Siblings[k], &one)
						case "sibling_step":
							st := r.Intn(len(in.q.Steps))
							if len(in.q.Steps[st].Siblings) == 0 {
								continue
							}
							k := r.Intn(len(in.q.Steps[st].Siblings))
							in.q.Steps[st].Siblings[k].Add(&in.q.Steps[st].Siblings[k], &one)
						case "beta":
							k := r.Intn(len(in.betas))
							in.betas[k][co] = ref.Add(in.betas[k][co], 1)
						case "alpha":
							in.alpha[co] = ref.Add(in.alpha[co], 1)
						case "reduced_opening":
							k := r.Intn(len(in.reduced))
							in.reduced[k][co] = ref.Add(in.reduced[k][co], 1)
						case "final_coeff":
							k := r.Intn(len(in.finalPoly))
							in.finalPoly[k][co] = ref.Add(in.finalPoly[k][co], 1)
						case "index_low_bit":
							in.raw ^= 1 << uint(r.Intn(4))
						case "index_mid_bit":
							if lde <= 8 {
								continue
							}
							in.raw ^= 1 << uint(4+r.Intn(lde-8))
						case "index_high_bit":
							in.raw ^= 1 << uint(lde-1-r.Intn(4))
						case "cap":
							oi := r.Intn(len(in.caps))
							cp := append([]fr.Element(nil), in.caps[oi]...)
							sel := in.raw % (1 << uint(lde)) >> uint(lde-4)
							cp[sel].Add(&cp[sel], &one)
							in.caps = append([][]fr.Element(nil), in.caps...)
							in.caps[oi] = cp
						case "caps_cancelling_pair", "caps_swapped":
							if len(in.caps) < 2 {
								continue
							}
							a := r.Intn(len(in.caps))
							b := (a + 1 + r.Intn(len(in.caps)-1)) % len(in.caps)
							sel := in.raw % (1 << uint(lde)) >> uint(lde-4)
							ca := append([]fr.Element(nil), in.caps[a]...)
							cb := append([]fr.Element(nil), in.caps[b]...)
							if base13 == "caps_swapped" {
								ca[sel], cb[sel] = cb[sel], ca[sel]
							} else {
								ca[sel].Add(&ca[sel], &one)
								cb[sel].Sub(&cb[sel], &one)
							}
							in.caps = append([][]fr.Element(nil), in.caps...)
							in.caps[a], in.caps[b] = ca, cb
						case "commit_cap":
							st := r.Intn(len(in.commitCaps))
							cp := append([]fr.Element(nil), in.commitCaps[st]...)
							sel := in.raw % (1 << uint(lde)) >> uint(lde-4)
							cp[sel].Add(&cp[sel], &one)
							in.commitCaps = append([][]fr.Element(nil), in.commitCaps...)
							in.commitCaps[st] = cp
						}
						refErr := s.Verify(in.raw, &in.q, in.alpha, in.betas, in.reduced, in.finalPoly, in.caps, in.commitCaps)
						res2 := runSynthRound(s, &in)
						o.Events += events(res2)
						acc := res2.Verdict == engine.Accept
						if acc != (refErr == nil) {
							return fw.Violate("round_verdict_differs_from_reference:"+corr, fmt.Sprintf("case %s corruption %s: circuit %s, reference error: %v", c.ID, corr, resStr(res2), refErr))
						}
						if acc {
							o.Inc("corruption_accepted_by_both_" + corr)
						} else {
							o.Inc("corruption_rejected_" + corr)
						}
					}
					o.Sample = map[string]any{"degree_bits": s.Prm.DegreeBits, "rate_bits": s.Prm.RateBits, "steps": len(s.Prm.ArityBits), "index": idx, "final_poly_len": len(s.FinalPoly)}
				}
				return o
			},
		}
	})
}

var _ = big.NewInt
var _ = rand.Int
