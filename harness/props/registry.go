// Package props holds one workload + oracle per property.
package props

import (
	"time"

	"verifharness/fw"
)

var registry = map[string]func() *fw.Prop{}

func register(id string, f func() *fw.Prop) { registry[id] = f }

// gadget-level checks have small cases: a case running for minutes means runaway values
// (e.g. a corrupted shared constant); its verdict is inconclusive and the run goes on.
// (C07, C18, C19 also build and run the race-detector binary in one case, minutes under load:
// they keep the long watchdog.)
var shortCase = map[string]bool{"C08": true, "C09": true, "C10": true, "C11": true, "C12": true, "C15": true, "C16": true}

func Get(id string) *fw.Prop {
	if f, ok := registry[id]; ok {
		p := f()
		if p.CaseTimeout == 0 && shortCase[id] {
			p.CaseTimeout = 6 * time.Minute
		}
		return p
	}
	return nil
}

func IDs() []string {
	var out []string
	for k := range registry {
		out = append(out, k)
	}
	return out
}
