// Package props holds one workload + oracle per property.
package props

import "verifharness/fw"

var registry = map[string]func() *fw.Prop{}

func register(id string, f func() *fw.Prop) { registry[id] = f }

func Get(id string) *fw.Prop {
	if f, ok := registry[id]; ok {
		return f()
	}
	return nil
}

func IDs() []string {
	var out []string
	for k := range registry {
		out = append(out, k)
	}
	return out
}
