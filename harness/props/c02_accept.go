package props

import (
	"fmt"
	"strings"

	"github.com/consensys/gnark-crypto/ecc"
	"github.com/consensys/gnark/constraint"
	"github.com/consensys/gnark/frontend"
	"github.com/consensys/gnark/frontend/cs/r1cs"
	"github.com/consensys/gnark/frontend/cs/scs"
	"github.com/consensys/gnark/test"
	"github.com/wormhole-foundation/example-near-light-client/verifier"

	"verifharness/engine"
	"verifharness/fw"
	"verifharness/gadget"
	"verifharness/harn"
	"verifharness/inst"
)

// C02 — valid plonky2 proofs are accepted under every range-check configuration.

func gnarkIsSolved(c, a frontend.Circuit) (err error) {
	defer func() {
		if r := recover(); r != nil {
			err = fmt.Errorf("panic: %v", trunc(fmt.Sprint(r), 200))
		}
	}()
	harn.Protect(func() { err = test.IsSolved(c, a, ecc.BN254.ScalarField()) })
	return err
}

func init() {
	register("C02", func() *fw.Prop {
		return &fw.Prop{
			ID:    "C02",
			Level: "exploration",
			Rule:  "cases = (real proof, restriction to its first k query rounds with both round counts adjusted, range-check configuration in {native, commit, bit decomposition by face, bit decomposition forced by env var (child process)}, wrapper in {VerifierCircuit, CircuitFixed (circuit A: 16 public inputs)}) executed with the repository's own hint functions (no native fast path): the verdict must be ACCEPT; 'gnark' cases run the same (circuit, assignment) in gnark's own test engine, which must agree; 'shadowfit' runs the integer-bound monitor to its fixpoint and requires every quotient's data-independent honest bound to fit its enforced width (no luck in intermediate sizes); a tampered control must be rejected by both engines. Non-trivial = every case (distinct instance/k/configuration/wrapper). Also: the commitment-based mechanism on every circuit size k = 1..28 (the number of range checks matters there), whole circuits compiled with gnark's R1CS and SCS builders and solved with the real solver (hint functions must be registered), several proofs verified by one chip. 'Accepted' means accepted with no honest hint function refusing its inputs.",
			Assumptions: []string{
				"honest proofs available offline are the five real proofs (two inner circuits) and their prefix restrictions",
				"the env var configuration is exercised in a child process because the repository reads it when a chip is created",
			},
			MinEvents: 1000000,
			Setup: func(ctx *fw.Ctx) error {
				engine.SetRealHints(true)
				return nil
			},
			Gen: func(ctx *fw.Ctx) []fw.Case {
				var cs []fw.Case
				add := func(name string, k int, face, wrapper, env string) {
					p := map[string]any{"inst": name, "k": k, "face": face, "wrapper": wrapper}
					id := fmt.Sprintf("%s/k=%d/%s/%s", name, k, face, wrapper)
					if env != "" {
						p["env"] = env
						id += "/env"
					}
					cs = append(cs, fw.Case{ID: id, Kind: "accept", P: p})
				}
				const envBD = "USE_BIT_DECOMPOSITION_RANGE_CHECK=true"
				names := instNames(ctx.Quick)
				for _, n := range names {
					isA := n[0] == 'A'
					if ctx.Quick {
						for _, k := range []int{1, 2, 28} {
							for _, f := range []string{"native", "plain", "commit"} {
								add(n, k, f, "verifier", "")
							}
						}
						// the commitment-based mechanism is sensitive to the NUMBER of checks in the
						// circuit: every circuit size (restriction to k rounds) on one instance of each circuit
						if n == "A_testdata" || n == "B_random_CGZ" {
							for k := 3; k <= 27; k++ {
								add(n, k, "commit", "verifier", "")
							}
						}
						if isA {
							for _, f := range []string{"native", "plain", "commit"} {
								add(n, 1, f, "fixed", "")
							}
							add(n, 28, "native", "fixed", "")
							add(n, 1, "commit", "verifier", envBD)
							add(n, 1, "native", "fixed", envBD)
						}
					} else {
						for k := 1; k <= 28; k++ {
							add(n, k, "native", "verifier", "")
							if isA {
								add(n, k, "native", "fixed", "")
							}
						}
						for k := 1; k <= 28; k++ {
							add(n, k, "commit", "verifier", "")
						}
						for _, k := range []int{1, 2, 3, 7, 14, 27, 28} {
							add(n, k, "plain", "verifier", "")
							if isA {
								add(n, k, "plain", "fixed", "")
								add(n, k, "commit", "fixed", "")
							}
						}
						for _, k := range []int{1, 28} {
							add(n, k, "commit", "verifier", envBD)
							add(n, k, "plain", "verifier", envBD)
							if isA {
								add(n, k, "commit", "fixed", envBD)
							}
						}
					}
				}
				// gnark test engine agreement
				gk := []int{1}
				gn := names[:2]
				if !ctx.Quick {
					gk = []int{1, 2, 3}
					gn = names
				}
				for _, n := range gn {
					for _, k := range gk {
						cs = append(cs, fw.Case{ID: fmt.Sprintf("gnark/%s/k=%d/verifier", n, k), Kind: "gnark", P: map[string]any{"inst": n, "k": k, "wrapper": "verifier"}})
					}
				}
				cs = append(cs, fw.Case{ID: "gnark/A_testdata/k=1/fixed", Kind: "gnark", P: map[string]any{"inst": "A_testdata", "k": 1, "wrapper": "fixed"}})
				// the whole circuit compiled with gnark's real builders and solved with the real solver
				// (the deployed configuration: CircuitFixed, all 28 rounds, R1CS, commit range checker)
				cs = append(cs, fw.Case{ID: "compiled/r1cs/A_testdata/k=28/fixed", Kind: "compiled", P: map[string]any{"inst": "A_testdata", "k": 28, "wrapper": "fixed", "sys": "r1cs"}})
				cs = append(cs, fw.Case{ID: "compiled/scs/A_testjson/k=5/verifier", Kind: "compiled", P: map[string]any{"inst": "A_testjson", "k": 5, "wrapper": "verifier", "sys": "scs"}})
				if !ctx.Quick {
					cs = append(cs, fw.Case{ID: "compiled/r1cs/A_testjson/k=28/verifier", Kind: "compiled", P: map[string]any{"inst": "A_testjson", "k": 28, "wrapper": "verifier", "sys": "r1cs"}})
					cs = append(cs, fw.Case{ID: "compiled/r1cs/B_epoch_4RjX/k=28/verifier", Kind: "compiled", P: map[string]any{"inst": "B_epoch_4RjX", "k": 28, "wrapper": "verifier", "sys": "r1cs"}})
					cs = append(cs, fw.Case{ID: "compiled/r1cs/B_random_CGZ/k=3/verifier", Kind: "compiled", P: map[string]any{"inst": "B_random_CGZ", "k": 3, "wrapper": "verifier", "sys": "r1cs"}})
					cs = append(cs, fw.Case{ID: "compiled/scs/A_testdata/k=28/fixed", Kind: "compiled", P: map[string]any{"inst": "A_testdata", "k": 28, "wrapper": "fixed", "sys": "scs"}})
					cs = append(cs, fw.Case{ID: "compiled/scs/B_epoch_CbAH/k=28/verifier", Kind: "compiled", P: map[string]any{"inst": "B_epoch_CbAH", "k": 28, "wrapper": "verifier", "sys": "scs"}})
					cs = append(cs, fw.Case{ID: "compiled/scs/B_random_CGZ/k=4/verifier", Kind: "compiled", P: map[string]any{"inst": "B_random_CGZ", "k": 4, "wrapper": "verifier", "sys": "scs"}})
				}
				cs = append(cs, fw.Case{ID: "gnark-control/A_testdata/k=1", Kind: "gnarkcontrol", P: map[string]any{"inst": "A_testdata", "k": 1}})
				// one VerifierChip verifying several proofs in one circuit (state kept by any chip must not leak)
				for _, f := range []string{"native", "commit"} {
					cs = append(cs, fw.Case{ID: "sequence/A_testdata+A_testjson+A_testdata/k=1/" + f, Kind: "sequence", P: map[string]any{"inst": "A_testdata", "k": 1, "face": f, "others": "A_testjson,A_testdata"}})
					cs = append(cs, fw.Case{ID: "sequence/B_random_CGZ+B_epoch_CbAH/k=2/" + f, Kind: "sequence", P: map[string]any{"inst": "B_random_CGZ", "k": 2, "face": f, "others": "B_epoch_CbAH"}})
				}
				cs = append(cs, fw.Case{ID: "shadowfit/A_testdata/k=1/native", Kind: "shadowfit", P: map[string]any{"inst": "A_testdata", "k": 1, "face": "native"}})
				if !ctx.Quick {
					cs = append(cs, fw.Case{ID: "shadowfit/B_random_CGZ/k=2/native", Kind: "shadowfit", P: map[string]any{"inst": "B_random_CGZ", "k": 2, "face": "native"}})
					cs = append(cs, fw.Case{ID: "shadowfit/A_testdata/k=1/plain", Kind: "shadowfit", P: map[string]any{"inst": "A_testdata", "k": 1, "face": "plain"}})
				}
				return cs
			},
			Exec: func(ctx *fw.Ctx, c fw.Case) fw.Outcome {
				var o fw.Outcome
				in := getInst(c.Str("inst"))
				if k := c.Int("k"); k < in.K {
					in = in.Restrict(k)
				}
				mk := func(i *inst.Instance) frontend.Circuit {
					if c.Str("wrapper") == "fixed" {
						return i.CircuitFixed()
					}
					return i.VerifierCircuit()
				}
				switch c.Kind {
				case "accept":
					face := faceByName(c.Str("face"))
					res := harnRunOpt(engine.Options{Face: face}, mk(in.Clone()).Define)
					o.Events += events(res)
					if io, bad := inconclusiveIf(res); bad {
						return io
					}
					cfg := c.Str("face")
					if c.Str("env") != "" {
						cfg += "+env_bitdecomp"
					}
					if !res.AcceptedHonestly() {
						return fw.Violate("rejects_valid_proof:"+cfg+":"+c.Str("wrapper"), fmt.Sprintf("case %s: %s %s", c.ID, resStr(res), res.Msg))
					}
					o.Inc("accepted_" + cfg + "_" + c.Str("wrapper"))
					o.Add("hints_run_by_repo_functions", int(res.Stats.Hints))
					o.Sample = map[string]any{"config": cfg, "hints": res.Stats.Hints, "asserts": res.Stats.Asserts, "range_checks": res.Stats.RangeChecks, "deferred": res.Stats.Deferred}
				case "gnark":
					err := gnarkIsSolved(mk(in.Clone()), mk(in.Clone()))
					res := harnRunOpt(engine.Options{Face: engine.Commit}, mk(in.Clone()).Define)
					o.Events += events(res)
					if err != nil {
						return fw.Violate("gnark_engine_rejects_valid_proof:"+c.Str("wrapper"), fmt.Sprintf("case %s: %v", c.ID, err))
					}
					if !res.AcceptedHonestly() {
						return fw.Violate("rejects_valid_proof:commit:"+c.Str("wrapper"), fmt.Sprintf("case %s: %s", c.ID, resStr(res)))
					}
					o.Inc("gnark_engine_agreements")
					o.Sample = map[string]any{"gnark": "accept", "engine": "ACCEPT"}
				case "sequence":
					list := []*inst.Instance{in}
					for _, n := range strings.Split(c.Str("others"), ",") {
						list = append(list, getInst(n).Restrict(c.Int("k")))
					}
					res := harnRunOpt(engine.Options{Face: faceByName(c.Str("face"))}, func(api frontend.API) error {
						vc := verifier.NewVerifierChip(api, in.Common)
						for _, i := range list {
							cl := i.Clone()
							vc.Verify(cl.PWI.Proof, cl.PWI.PublicInputs, cl.VD)
						}
						return nil
					})
					o.Events += events(res)
					if io, bad := inconclusiveIf(res); bad {
						return io
					}
					if !res.AcceptedHonestly() {
						return fw.Violate("rejects_valid_proof_sequence:"+c.Str("face"), fmt.Sprintf("case %s: %d valid proofs verified by one VerifierChip: %s %s", c.ID, len(list), resStr(res), res.Msg))
					}
					o.Inc("proof_sequences_accepted_" + c.Str("face"))
					o.Sample = map[string]any{"proofs_on_one_chip": len(list), "face": c.Str("face")}
				case "compiled":
					var nb frontend.NewBuilder = r1cs.NewBuilder
					if c.Str("sys") == "scs" {
						nb = scs.NewBuilder
					}
					// compile + solve as ONE big job: the compiled system (several GB) is dropped
					// before the next one is built
					var out fw.Outcome
					harn.Big(func() {
						var ccs constraint.ConstraintSystem
						var err error
						harn.Protect(func() { ccs, err = frontend.Compile(ecc.BN254.ScalarField(), nb, mk(in.Clone())) })
						if err != nil {
							out = fw.Violate("compile_fails_on_valid_template:"+c.Str("sys"), fmt.Sprintf("case %s: %v", c.ID, trunc(err.Error(), 200)))
							return
						}
						w, err := frontend.NewWitness(mk(in.Clone()), ecc.BN254.ScalarField())
						if err != nil {
							out = fw.Inconcl("witness: " + err.Error())
							return
						}
						if err := ccs.IsSolved(w, gadget.SolveOpts(ccs)...); err != nil {
							out = fw.Violate("compiled_system_rejects_valid_proof:"+c.Str("sys")+":"+c.Str("wrapper"), fmt.Sprintf("case %s (%d constraints): %v", c.ID, ccs.GetNbConstraints(), trunc(err.Error(), 200)))
							return
						}
						out.Events += ccs.GetNbConstraints()
						out.Inc("compiled_" + c.Str("sys") + "_accepts_" + c.Str("wrapper"))
						out.Sample = map[string]any{"system": c.Str("sys"), "constraints": ccs.GetNbConstraints(), "wrapper": c.Str("wrapper")}
					})
					return out
				case "gnarkcontrol":
					t := in.Clone()
					t.PWI.Proof.Openings.Wires[3][0].Limb = uint64(12345)
					err := gnarkIsSolved(t.VerifierCircuit(), t.VerifierCircuit())
					res := harnRunOpt(engine.Options{Face: engine.Commit}, t.VerifierCircuit().Define)
					o.Events += events(res)
					if err == nil || res.Verdict == engine.Accept {
						return fw.Inconcl(fmt.Sprintf("control: a tampered proof was accepted (gnark err=%v, engine=%s)", err, res.Verdict))
					}
					o.Inc("gnark_engine_agreements_on_reject")
				case "shadowfit":
					rep, results, err := shadowFixpoint(faceByName(c.Str("face")), verifierCircuitMaker(in), 10)
					for _, r := range results {
						o.Events += events(r)
					}
					if err != nil {
						return fw.Inconcl("shadow monitor: " + err.Error())
					}
					for _, f := range rep.SortedFindings() {
						if f.Kind == "honest_overflow" {
							return fw.Violate("honest_value_may_not_fit:"+shortSite2(f.Site), f.Detail+" @ "+f.Site)
						}
					}
					o.Add("quotient_sites_with_headroom", len(rep.Sites))
					ctx.SetExtra("headroom_"+c.Str("face")+"_"+c.Str("inst"), siteRows(rep))
					o.Sample = map[string]any{"static_sites": len(rep.Sites), "passes": len(results)}
				}
				return o
			},
		}
	})
}
