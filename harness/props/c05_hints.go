package props

import (
	"fmt"
	"math/big"
	"sort"
	"sync"

	"github.com/consensys/gnark/constraint/solver"
	"github.com/consensys/gnark/frontend"
	gl "github.com/wormhole-foundation/example-near-light-client/goldilocks"
	"github.com/wormhole-foundation/example-near-light-client/poseidon"

	"verifharness/engine"
	"verifharness/fw"
	"verifharness/gadget"
	"verifharness/inst"
	"verifharness/ref"
)

// C05 — witnessed Goldilocks arithmetic is wrap-free and admits a single result.

// hint-output families a cheating prover can try. Each returns nil when not applicable.
type family struct {
	Name  string
	Hints []string
	F     func(in, honest []*big.Int, rnd *big.Int) []*big.Int
}

func mulAddX(in []*big.Int) *big.Int {
	if len(in) == 3 {
		x := new(big.Int).Mul(in[0], in[1])
		return x.Add(x, in[2])
	}
	return new(big.Int).Set(in[0])
}

var bigRInv32, bigPInvR *big.Int

func init() {
	bigPInvR = new(big.Int).ModInverse(bigP, bigR)
	bigRInv32 = new(big.Int).ModInverse(pow2(32), bigR)
}

func modR(x *big.Int) *big.Int { return new(big.Int).Mod(x, bigR) }

var c05Families = []family{
	{"wrap_k1", []string{"MulAddHint", "ReduceHint"}, func(in, h []*big.Int, _ *big.Int) []*big.Int {
		x := new(big.Int).Add(new(big.Int).Mod(mulAddX(in), bigR), bigR)
		q, r := new(big.Int).QuoRem(x, bigP, new(big.Int))
		return []*big.Int{modR(q), r}
	}},
	{"wrap_k2", []string{"MulAddHint", "ReduceHint"}, func(in, h []*big.Int, _ *big.Int) []*big.Int {
		x := new(big.Int).Add(new(big.Int).Mod(mulAddX(in), bigR), new(big.Int).Lsh(bigR, 1))
		q, r := new(big.Int).QuoRem(x, bigP, new(big.Int))
		return []*big.Int{modR(q), r}
	}},
	{"shift_rem_plus_p", []string{"MulAddHint", "ReduceHint"}, func(in, h []*big.Int, _ *big.Int) []*big.Int {
		return []*big.Int{modR(new(big.Int).Sub(h[0], big.NewInt(1))), new(big.Int).Add(h[1], bigP)}
	}},
	{"shift_rem_minus_p", []string{"MulAddHint", "ReduceHint"}, func(in, h []*big.Int, _ *big.Int) []*big.Int {
		return []*big.Int{modR(new(big.Int).Add(h[0], big.NewInt(1))), modR(new(big.Int).Sub(h[1], bigP))}
	}},
	{"field_solved_quotient", []string{"MulAddHint", "ReduceHint"}, func(in, h []*big.Int, rnd *big.Int) []*big.Int {
		rem := new(big.Int).Mod(rnd, bigP)
		q := new(big.Int).Sub(mulAddX(in), rem)
		q.Mul(q, bigPInvR)
		return []*big.Int{modR(q), rem}
	}},
	{"rem_plus1", []string{"MulAddHint", "ReduceHint"}, func(in, h []*big.Int, _ *big.Int) []*big.Int {
		return []*big.Int{h[0], new(big.Int).Add(h[1], big.NewInt(1))}
	}},
	{"limb_borrow", []string{"SplitLimbsHint"}, func(in, h []*big.Int, _ *big.Int) []*big.Int {
		return []*big.Int{modR(new(big.Int).Sub(h[0], big.NewInt(1))), new(big.Int).Add(h[1], pow2(32))}
	}},
	{"limb_carry", []string{"SplitLimbsHint"}, func(in, h []*big.Int, _ *big.Int) []*big.Int {
		return []*big.Int{new(big.Int).Add(h[0], big.NewInt(1)), modR(new(big.Int).Sub(h[1], pow2(32)))}
	}},
	{"limb_field_solved", []string{"SplitLimbsHint"}, func(in, h []*big.Int, rnd *big.Int) []*big.Int {
		lo := new(big.Int).And(rnd, big.NewInt(0xFFFFFFFF))
		hi := new(big.Int).Sub(in[0], lo)
		hi.Mul(hi, bigRInv32)
		return []*big.Int{modR(hi), lo}
	}},
	{"limb_lo_plus1", []string{"SplitLimbsHint"}, func(in, h []*big.Int, _ *big.Int) []*big.Int {
		return []*big.Int{h[0], new(big.Int).Add(h[1], big.NewInt(1))}
	}},
	{"inverse_plus_p", []string{"InverseHint"}, func(in, h []*big.Int, _ *big.Int) []*big.Int {
		return []*big.Int{new(big.Int).Add(h[0], bigP)}
	}},
	{"inverse_plus1", []string{"InverseHint"}, func(in, h []*big.Int, _ *big.Int) []*big.Int {
		return []*big.Int{new(big.Int).Add(h[0], big.NewInt(1))}
	}},
	{"inverse_mod_r", []string{"InverseHint"}, func(in, h []*big.Int, _ *big.Int) []*big.Int {
		v := new(big.Int).ModInverse(in[0], bigR)
		if v == nil {
			return nil
		}
		return []*big.Int{v}
	}},
	{"inverse_zero", []string{"InverseHint"}, func(in, h []*big.Int, _ *big.Int) []*big.Int {
		return []*big.Int{big.NewInt(0)}
	}},
}

func familiesFor(hint string) []family {
	var out []family
	for _, f := range c05Families {
		for _, h := range f.Hints {
			if h == hint {
				out = append(out, f)
			}
		}
	}
	return out
}

func familyByName(n string) family {
	for _, f := range c05Families {
		if f.Name == n {
			return f
		}
	}
	panic("family " + n)
}

// seqPolicy substitutes the outputs of the hint call with dynamic sequence number Seq.
type seqPolicy struct {
	Seq    uint64
	Hint   string
	Fam    family
	Rnd    *big.Int
	fired  *bool
	differ *bool
	skip   *bool
}

func (p seqPolicy) NeedSite() bool { return false }
func (p seqPolicy) Substitute(ev *engine.HintEvent) ([]*big.Int, bool) {
	if ev.Seq != p.Seq {
		return nil, false
	}
	if ev.Name != p.Hint || ev.Honest == nil {
		*p.skip = true
		return nil, false
	}
	if ev.Name == "InverseHint" && ev.Inputs[0].Sign() == 0 {
		*p.skip = true // inverse of zero is free by design (hasInv=0)
		return nil, false
	}
	outs := p.Fam.F(ev.Inputs, ev.Honest, p.Rnd)
	if outs == nil {
		*p.skip = true
		return nil, false
	}
	*p.fired = true
	for i := range outs {
		if outs[i].Cmp(ev.Honest[i]) != 0 {
			*p.differ = true
		}
	}
	return outs, true
}

// siteMap: static hint site -> dynamic sequence numbers, recorded from an honest run.
type siteInfo struct {
	Site, Hint string
	Seqs       []uint64
}

var siteMapCache sync.Map

func recordSites(in *inst.Instance, face engine.Face) ([]siteInfo, error) {
	key := in.Name + "/" + face.String()
	if v, ok := siteMapCache.Load(key); ok {
		return v.([]siteInfo), nil
	}
	type sk struct {
		st   [24]uintptr
		name string
	}
	m := map[sk]*siteInfo{}
	res := runVerifier(in, engine.Options{Face: face, OnHint: func(ev *engine.HintEvent) {
		k := sk{ev.Stack, ev.Name}
		s := m[k]
		if s == nil {
			s = &siteInfo{Site: ev.Site, Hint: ev.Name}
			m[k] = s
		}
		s.Seqs = append(s.Seqs, ev.Seq)
	}})
	if !res.AcceptedHonestly() {
		return nil, fmt.Errorf("recording run failed: %s", res)
	}
	var out []siteInfo
	for _, s := range m {
		out = append(out, *s)
	}
	sort.Slice(out, func(i, j int) bool {
		if out[i].Site+out[i].Hint != out[j].Site+out[j].Hint {
			return out[i].Site+out[i].Hint < out[j].Site+out[j].Hint
		}
		return out[i].Seqs[0] < out[j].Seqs[0]
	})
	siteMapCache.Store(key, out)
	return out, nil
}

func isRepoHint(h string) bool {
	return h == "MulAddHint" || h == "ReduceHint" || h == "SplitLimbsHint" || h == "InverseHint"
}

func init() {
	register("C05", func() *fw.Prop {
		return &fw.Prop{
			ID:    "C05",
			Level: "fault_enumeration",
			Rule:  "two monitors over executions of the whole verifier circuit on the k=1 restriction of real proofs (every static hint site of the full circuit occurs there): (a) 'shadow' cases: the integer-bound sanitizer is run to its fixpoint (bounds learned from range checks / integer equalities are fed to the next pass) and then judges every equality issued by MulAdd / ReduceWithMaxBits / RangeCheck (both sides must stay below the BN254 modulus under the enforced bounds), every hint output (must receive a width) and every quotient / limb (honest bound must fit the enforced width) — bounds are data-independent, so one fixpoint decides a static site for all operand values; (b) 'adv' cases = (static hint site, dynamic instance in {first, seeded-random, last}, alternative family: (x+k*r) div/mod p, (q-1, rem+p), (q+1, rem-p), field-solved quotient for a random remainder, rem+1, limb borrow/carry, field-solved limbs, lo+1, inverse+p, inverse+1, inverse mod r, zero) substituted at that one call: the verdict must not be ACCEPT; (c) 'solver' cases replay the families on a really compiled R1CS gadget circuit with solver.OverrideHint. Non-trivial = the substituted outputs differ from the honest ones; distinct by (site, instance, family).",
			Assumptions: []string{
				"the shadow monitor treats a range-checked value as bounded by 2^64-1 (canonical-form rule is C06's accept-set test) and runs under faces that issue checks in line (Native, Plain)",
				"inverse of a zero operand is free by design (hasInv=0) and excluded",
			},
			MinEvents: 100000,
			Setup: func(ctx *fw.Ctx) error {
				engine.SetRealHints(false) // large must-reject sweep: native fast path for honest hints
				return nil
			},
			Gen: func(ctx *fw.Ctx) []fw.Case {
				var cs []fw.Case
				shadowInst := []string{"A_testdata"}
				if !ctx.Quick {
					shadowInst = []string{"A_testdata", "B_random_CGZ"}
				}
				for _, n := range shadowInst {
					cs = append(cs, fw.Case{ID: "shadow/native/" + n + "/k=1", Kind: "shadow", P: map[string]any{"inst": n, "k": 1, "face": "native"}})
				}
				cs = append(cs, fw.Case{ID: "shadow/plain/gadgets", Kind: "shadowgadgets", P: map[string]any{"face": "plain"}})
				cs = append(cs, fw.Case{ID: "shadow/native/gadgets", Kind: "shadowgadgets", P: map[string]any{"face": "native"}})
				if !ctx.Quick {
					cs = append(cs, fw.Case{ID: "shadow/plain/A_testdata/k=1", Kind: "shadow", P: map[string]any{"inst": "A_testdata", "k": 1, "face": "plain"}})
					cs = append(cs, fw.Case{ID: "shadow/native/A_testjson/k=28", Kind: "shadow", P: map[string]any{"inst": "A_testjson", "k": 28, "face": "native"}})
				}
				advInst := []string{"A_testdata"}
				if !ctx.Quick {
					advInst = []string{"A_testdata", "B_epoch_CbAH"}
				}
				for _, n := range advInst {
					in := getInst(n).Restrict(1)
					sites, err := recordSites(in, engine.Native)
					if err != nil {
						cs = append(cs, fw.Case{ID: "record/" + n, Kind: "recordfail", P: map[string]any{"err": err.Error()}})
						continue
					}
					r := ctx.Rand("adv/" + n)
					perGroup := map[string]int{}
					for si, s := range sites {
						if !isRepoHint(s.Hint) {
							continue
						}
						// quick: at most two call chains per (3-frame site, hint) group
						perGroup[s.Site+"#"+s.Hint]++
						if ctx.Quick && perGroup[s.Site+"#"+s.Hint] > 6 {
							continue
						}
						// thorough: up to 16 call chains per group (the chains of a group differ only in
						// the outer frames; 70k executions for all of them took 100 minutes)
						if !ctx.Quick && perGroup[s.Site+"#"+s.Hint] > 16 {
							continue
						}
						picks := map[string]int{"first": 0, "last": len(s.Seqs) - 1, "random": r.Intn(len(s.Seqs))}
						if !ctx.Quick && len(s.Seqs) > 8 {
							picks["random2"] = r.Intn(len(s.Seqs))
						}
						for _, f := range familiesFor(s.Hint) {
							for _, pn := range []string{"first", "last", "random", "random2", "random3"} {
								pi, ok := picks[pn]
								if !ok {
									continue
								}
								if ctx.Quick && pn != "random" && (si+len(f.Name))%7 != 0 {
									continue
								}
								seq := s.Seqs[pi]
								next := uint64(0) // 0 = no later call with the same call chain
								if pi+1 < len(s.Seqs) {
									next = s.Seqs[pi+1]
								}
								cs = append(cs, fw.Case{ID: fmt.Sprintf("adv/%s/%s#%s@%d/%s/%s", n, s.Site, s.Hint, s.Seqs[0], pn, f.Name), Kind: "adv",
									P: map[string]any{"inst": n, "site": s.Site, "hint": s.Hint, "seq": fmt.Sprint(seq), "next": fmt.Sprint(next), "fam": f.Name, "nsites": len(sites), "dyn": len(s.Seqs)}})
							}
						}
					}
				}
				ns := 12
				if !ctx.Quick {
					ns = 60
				}
				for i := 0; i < ns; i++ {
					for _, f := range c05Families {
						for _, h := range f.Hints {
							if ctx.Quick && (i+len(f.Name)+len(h))%3 != 0 {
								continue
							}
							cs = append(cs, fw.Case{ID: fmt.Sprintf("solver/%d/%s/%s", i, f.Name, h), Kind: "solver", P: map[string]any{"i": i, "fam": f.Name, "hint": h}})
						}
					}
				}
				return cs
			},
			Exec: func(ctx *fw.Ctx, c fw.Case) fw.Outcome {
				var o fw.Outcome
				switch c.Kind {
				case "recordfail":
					return fw.Inconcl("could not record hint sites: " + c.Str("err"))
				case "shadow", "shadowgadgets":
					var mk func() frontend.Circuit
					minSites, minEq := 10, 10
					if c.Kind == "shadow" {
						in := getInst(c.Str("inst"))
						if k := c.Int("k"); k < in.K {
							in = in.Restrict(k)
						}
						mk = verifierCircuitMaker(in)
					} else {
						// every kind of hint site on gadget-sized circuits: base-field gadgets,
						// extension arithmetic, the Poseidon permutation, a challenger squeeze
						mk = func() frontend.Circuit { return newShadowGadgetCircuit() }
						minSites, minEq = 8, 4
					}
					rep, results, err := shadowFixpoint(faceByName(c.Str("face")), mk, 12)
					for _, r := range results {
						o.Events += events(r)
					}
					if err != nil {
						return fw.Inconcl("shadow monitor: " + err.Error())
					}
					o.Add("shadow_passes", len(results))
					o.Add("static_hint_sites", len(rep.Sites))
					o.Add("integer_equality_sites_judged", len(rep.EqSites))
					var dyn uint64
					for _, s := range rep.Sites {
						dyn += s.Count
					}
					o.Add("dynamic_hint_calls", int(dyn))
					if len(rep.Sites) < minSites || len(rep.EqSites) < minEq {
						return fw.Inconcl(fmt.Sprintf("shadow monitor observed too few sites (%d hint sites, %d equality sites)", len(rep.Sites), len(rep.EqSites)))
					}
					fs := rep.SortedFindings()
					if rep.CanonMarks == 0 {
						return fw.Inconcl("shadow monitor never saw a value enter goldilocks.(*Chip).RangeCheck: it cannot judge canonical-form checks on this tree")
					}
					if len(fs) > 0 {
						f := fs[0]
						// one violation per finding is reported through Finish-like aggregation: here the first; all are listed in detail
						det := ""
						for _, x := range fs {
							det += fmt.Sprintf("[%s @ %s: %s (x%d)] ", x.Kind, x.Site, x.Detail, rep.FindCount[x.Kind+"|"+x.Site])
						}
						return fw.Violate("shadow:"+f.Kind+":"+shortSite2(f.Site), det)
					}
					ctx.SetExtra("shadow_sites_"+c.Str("face")+"_"+c.Str("inst"), siteRows(rep))
					o.Sample = map[string]any{"passes": len(results), "static_sites": len(rep.Sites), "dynamic_calls": dyn, "findings": 0}
				case "adv":
					in := getInst(c.Str("inst")).Restrict(1)
					var fired, differ, skip bool
					seq := c.U64("seq")
					pol := seqPolicy{Seq: seq, Hint: c.Str("hint"), Fam: familyByName(c.Str("fam")), Rnd: randBig(ctx.Rand(c.ID), bigR), fired: &fired, differ: &differ, skip: &skip}
					res := runVerifier(in, engine.Options{Face: engine.Native, Policy: pol})
					o.Events += events(res)
					if io, bad := inconclusiveIf(res); bad {
						return io
					}
					if skip || !fired || !differ {
						o.Trivial = true
						o.Inc("adv_not_applicable")
						return o
					}
					if res.Verdict == engine.Accept {
						return fw.Violate("accepts_substituted_hint:"+shortSite2(c.Str("site"))+":"+c.Str("fam"), fmt.Sprintf("case %s (dynamic call %d): a hint output different from the honest one was ACCEPTED", c.ID, seq))
					}
					// The alternative must be refused by the constraints of the site itself: the first
					// failing assertion has to occur while the gadget call that issued the hint is
					// still running (same call chain, and before the next call with that chain).
					next := c.U64("next")
					inScope := res.Substituted && res.InScope && (next == 0 || res.FailSeq <= next)
					if res.Verdict == engine.Reject && !inScope {
						return fw.Violate("site_accepts_alternative:"+shortSite2(c.Str("site"))+":"+c.Str("fam"), fmt.Sprintf("case %s (dynamic call %d): the constraints of the site accepted a result different from the honest one; the run only failed later at %s", c.ID, seq, resStr(res)))
					}
					if res.Verdict == engine.Reject {
						o.Inc("adv_rejected_in_scope")
					}
					o.Inc("adv_rejected_" + c.Str("fam"))
					o.Inc("adv_site_" + shortSite2(c.Str("site")))
					o.Sample = map[string]any{"site": c.Str("site"), "hint": c.Str("hint"), "family": c.Str("fam"), "dynamic_calls_at_site": c.Int("dyn"), "verdict": resStr(res)}
				case "solver":
					return c05Solver(ctx, c)
				}
				return o
			},
		}
	})
}

// shortSite2 keeps the two innermost frames.
func shortSite2(site string) string {
	n := 0
	for i := 0; i < len(site); i++ {
		if site[i] == '<' {
			n++
			if n == 2 {
				return site[:i]
			}
		}
	}
	return site
}

// c05Solver: the adversarial families on the really compiled base-field gadget circuit.
func c05Solver(ctx *fw.Ctx, c fw.Case) fw.Outcome {
	var o fw.Outcome
	cp := ctx.Once("compiled/r1cs", func() any {
		cc, err := gadget.Compile("r1cs", c07Gadget, 4, len(c07Ops), gadget.PadCommit, nil)
		if err != nil {
			return err
		}
		return cc
	})
	cc, ok := cp.(*gadget.Compiled)
	if !ok {
		return fw.Inconcl(fmt.Sprintf("compile: %v", cp))
	}
	fam := familyByName(c.Str("fam"))
	r := ctx.Rand(c.ID)
	t := c07Triple{A: randGL(r), B: randGL(r), C: randGL(r), X: c07ReduceInput(randBig(r, pow2(144)), randGL(r))}
	if t.A == 0 {
		t.A = 5
	}
	if c.Int("i")%2 == 0 {
		// targeted operands: small true remainders and quotients >= 1, so that the shifted
		// pair (q-1, rem+p) stays below 2^64 and only the canonical-form check can refuse it
		small := uint64(r.Intn(1 << 20))
		q := new(big.Int).Add(randBig(r, pow2(100)), big.NewInt(1))
		t.X = c07ReduceInput(q, small)
		if t.B == 0 {
			t.B = 3
		}
		if t.A < 1<<33 {
			t.A += 1 << 40
		}
		if t.B < 1<<33 {
			t.B += 1 << 40
		}
		t.C = ref.Sub(small, ref.Mul(t.A, t.B))
	}
	in := []*big.Int{bu(t.A), bu(t.B), bu(t.C), t.X}
	rnd := randBig(r, bigR)
	// target: the first call of the family's hint whose honest outputs we know
	hint := c.Str("hint")
	var targetIn []*big.Int
	switch hint {
	case "MulAddHint":
		targetIn = []*big.Int{in[0], in[1], in[2]} // the MulAdd(a,b,c) call
	case "ReduceHint":
		targetIn = []*big.Int{in[3]}
	case "InverseHint":
		targetIn = []*big.Int{in[0]}
	case "SplitLimbsHint":
		targetIn = []*big.Int{in[0]} // no call splits a itself; use the remainder of Reduce(x)
		targetIn = []*big.Int{new(big.Int).Mod(t.X, bigP)}
	}
	match := func(a []*big.Int) bool {
		if len(a) != len(targetIn) {
			return false
		}
		for i := range a {
			if a[i].Cmp(targetIn[i]) != 0 {
				return false
			}
		}
		return true
	}
	// engine run with the substitution, collecting outputs
	fired := false
	pol := matchPolicy{hint: hint, match: match, fam: fam, rnd: rnd, fired: &fired}
	outs, res := gadget.EngineEval(engine.Options{Face: engine.Native, Policy: pol, Collect: true}, c07Gadget, in)
	o.Events += events(res)
	if !fired {
		o.Trivial = true
		return o
	}
	if res.Verdict == engine.Accept {
		return fw.Violate("accepts_substituted_hint:gadget:"+fam.Name, fmt.Sprintf("engine accepted family %s on a=%d b=%d c=%d", fam.Name, t.A, t.B, t.C))
	}
	var honestFn solver.Hint
	switch hint {
	case "MulAddHint":
		honestFn = gl.MulAddHint
	case "ReduceHint":
		honestFn = gl.ReduceHint
	case "InverseHint":
		honestFn = gl.InverseHint
	case "SplitLimbsHint":
		honestFn = gl.SplitLimbsHint
	}
	once := false
	ov := func(m *big.Int, hin []*big.Int, hout []*big.Int) error {
		if !once && match(hin) {
			h := make([]*big.Int, len(hout))
			for i := range h {
				h[i] = new(big.Int)
			}
			if err := honestFn(m, hin, h); err != nil {
				return err
			}
			alt := fam.F(hin, h, rnd)
			if alt != nil {
				same := true
				for i := range alt {
					if new(big.Int).Mod(alt[i], bigR).Cmp(h[i]) != 0 {
						same = false
					}
				}
				if same {
					return honestFn(m, hin, hout)
				}
				once = true
				for i := range hout {
					hout[i].Set(alt[i])
				}
				return nil
			}
		}
		return honestFn(m, hin, hout)
	}
	if err := cc.Solve(in, outs, solver.OverrideHint(solver.GetHintID(honestFn), ov)); err == nil {
		return fw.Violate("solver_accepts_substituted_hint:"+fam.Name, fmt.Sprintf("gnark's R1CS solver accepted family %s on a=%d b=%d c=%d", fam.Name, t.A, t.B, t.C))
	}
	if !once {
		o.Trivial = true
		return o
	}
	o.Inc("solver_rejected_" + fam.Name)
	o.Sample = map[string]any{"family": fam.Name, "hint": hint, "engine": resStr(res)}
	return o
}

type matchPolicy struct {
	hint  string
	match func([]*big.Int) bool
	fam   family
	rnd   *big.Int
	fired *bool
}

func (p matchPolicy) NeedSite() bool { return false }
func (p matchPolicy) Substitute(ev *engine.HintEvent) ([]*big.Int, bool) {
	if *p.fired || ev.Name != p.hint || ev.Honest == nil || !p.match(ev.Inputs) {
		return nil, false
	}
	outs := p.fam.F(ev.Inputs, ev.Honest, p.rnd)
	if outs == nil {
		return nil, false
	}
	differ := false
	for i := range outs {
		if new(big.Int).Mod(outs[i], bigR).Cmp(ev.Honest[i]) != 0 {
			differ = true
		}
	}
	if !differ {
		return nil, false // the alternative coincides with the honest outputs (e.g. inverse of 1 modulo r)
	}
	*p.fired = true
	return outs, true
}

// shadowGadgetCircuit exercises every kind of hint site on a small circuit.
type shadowGadgetCircuit struct {
	In [16]gl.Variable
}

func newShadowGadgetCircuit() *shadowGadgetCircuit {
	c := &shadowGadgetCircuit{}
	for i := range c.In {
		c.In[i] = gl.NewVariable(uint64(1000003*i + 17))
	}
	return c
}

func (c *shadowGadgetCircuit) Define(api frontend.API) error {
	g := gl.New(api)
	a, b, d := c.In[0], c.In[1], c.In[2]
	g.RangeCheck(a)
	g.RangeCheck(b)
	g.RangeCheck(d)
	x := g.MulAdd(a, b, d)
	y := g.Sub(x, a)
	inv, _ := g.Inverse(y)
	acc := g.MulAddNoReduce(inv, b, d)
	for i := 3; i < 12; i++ {
		g.RangeCheck(c.In[i])
		acc = g.MulAddNoReduce(c.In[i], x, acc)
	}
	red := g.Reduce(acc)
	q1 := gl.QuadraticExtensionVariable{red, x}
	q2 := gl.QuadraticExtensionVariable{y, inv}
	m := g.MulExtension(q1, q2)
	dv, _ := g.DivExtension(m, q1)
	_ = g.ReduceWithPowers([]gl.QuadraticExtensionVariable{m, dv, q2}, q1)
	pc := poseidon.NewGoldilocksChip(api)
	var st poseidon.GoldilocksState
	for i := range st {
		st[i] = g.Add(c.In[i], x)
	}
	out := pc.Poseidon(st)
	h := pc.HashNoPad(out[:])
	g.RangeCheckWithMaxBits(h[0], 64)
	return nil
}
