package props

import (
	"fmt"
	"math/big"
	"math/rand"
	"strings"

	"github.com/consensys/gnark-crypto/ecc/bn254/fr"
	"github.com/consensys/gnark/frontend"
	"github.com/wormhole-foundation/example-near-light-client/challenger"
	"github.com/wormhole-foundation/example-near-light-client/fri"
	gl "github.com/wormhole-foundation/example-near-light-client/goldilocks"
	"github.com/wormhole-foundation/example-near-light-client/poseidon"
	"github.com/wormhole-foundation/example-near-light-client/types"
	"github.com/wormhole-foundation/example-near-light-client/variables"
	"github.com/wormhole-foundation/example-near-light-client/verifier"

	"verifharness/circ"
	"verifharness/engine"
	"verifharness/fw"
	"verifharness/ref"
)

// C11 — Fiat–Shamir challenges follow plonky2's transcript exactly and bind all data.
// C12 — Merkle openings verify only the committed leaf at the queried index.
// C14 — FRI proof-of-work condition is enforced for every response value.

// one step of a challenger history
type chOp struct {
	Op   string // elem, elems, hash, bnhash, cap, ext, exts, get, getn, getext, gethash
	Vals []uint64
	Hs   []*big.Int
	N    int
}

func genHistory(r *rand.Rand, n int) []chOp {
	var h []chOp
	for i := 0; i < n; i++ {
		var op chOp
		switch r.Intn(12) {
		case 0, 1:
			op = chOp{Op: "elem", Vals: []uint64{randGL(r)}}
		case 2:
			k := r.Intn(20)
			op = chOp{Op: "elems"}
			for j := 0; j < k; j++ {
				op.Vals = append(op.Vals, randGL(r))
			}
		case 3:
			op = chOp{Op: "hash", Vals: []uint64{randGL(r), randGL(r), randGL(r), randGL(r)}}
		case 4:
			op = chOp{Op: "bnhash", Hs: []*big.Int{randBig(r, bigR)}}
		case 5:
			k := 1 + r.Intn(4)
			op = chOp{Op: "cap"}
			for j := 0; j < k; j++ {
				op.Hs = append(op.Hs, randBig(r, bigR))
			}
		case 6:
			op = chOp{Op: "ext", Vals: []uint64{randGL(r), randGL(r)}}
		case 7:
			k := r.Intn(6)
			op = chOp{Op: "exts"}
			for j := 0; j < 2*k; j++ {
				op.Vals = append(op.Vals, randGL(r))
			}
		case 8:
			op = chOp{Op: "get"}
		case 9:
			op = chOp{Op: "getn", N: r.Intn(12)}
		case 10:
			op = chOp{Op: "getext"}
		case 11:
			op = chOp{Op: "gethash"}
		}
		h = append(h, op)
	}
	return h
}

// forced patterns: rate boundary, observe-after-squeeze, squeeze on empty buffers
func forcedHistories() [][]chOp {
	el := func(n int) chOp {
		o := chOp{Op: "elems"}
		for i := 0; i < n; i++ {
			o.Vals = append(o.Vals, uint64(i+1))
		}
		return o
	}
	// long batches: far beyond the 256 openings / 16 coefficients of the shipped proofs
	ex := func(n int) chOp {
		o := chOp{Op: "exts"}
		for i := 0; i < 2*n; i++ {
			o.Vals = append(o.Vals, uint64(i+1)<<21|uint64(i%5))
		}
		return o
	}
	return [][]chOp{
		{},
		{{Op: "get"}},
		{el(8), {Op: "get"}},
		{el(7), {Op: "get"}, el(1), {Op: "get"}},
		{el(9), {Op: "getn", N: 9}},
		{el(3), {Op: "getn", N: 3}, el(1), {Op: "getn", N: 8}, {Op: "get"}},
		{el(16), {Op: "gethash"}, {Op: "gethash"}, {Op: "get"}},
		{{Op: "getn", N: 8}, {Op: "get"}, el(8), el(8), {Op: "getext"}},
		{ex(256), {Op: "get"}},
		{ex(512), {Op: "getext"}},
		{ex(513), {Op: "get"}},
		{ex(600), {Op: "gethash"}},
		{ex(1025), {Op: "getn", N: 9}},
		{el(1024), {Op: "get"}},
		{el(1025), {Op: "get"}},
		{el(2049), {Op: "getext"}},
		{el(5), ex(700), el(3), {Op: "getn", N: 9}, ex(515), {Op: "get"}},
	}
}

// runHistoryCircuit executes a history on the real challenger chip; returns squeezed values.
func runHistoryCircuit(face engine.Face, h []chOp) ([]uint64, engine.Result) {
	var out []uint64
	var outs []frontend.Variable
	res := harnRunOpt(engine.Options{Face: face}, func(api frontend.API) error {
		c := challenger.NewChip(api)
		glv := func(v uint64) gl.Variable { return gl.NewVariable(v) }
		for _, op := range h {
			switch op.Op {
			case "elem":
				c.ObserveElement(glv(op.Vals[0]))
			case "elems":
				vs := make([]gl.Variable, len(op.Vals))
				for i := range vs {
					vs[i] = glv(op.Vals[i])
				}
				c.ObserveElements(vs)
			case "hash":
				c.ObserveHash(poseidon.GoldilocksHashOut{glv(op.Vals[0]), glv(op.Vals[1]), glv(op.Vals[2]), glv(op.Vals[3])})
			case "bnhash":
				c.ObserveBN254Hash(op.Hs[0])
			case "cap":
				cap := make([]poseidon.BN254HashOut, len(op.Hs))
				for i := range cap {
					cap[i] = op.Hs[i]
				}
				c.ObserveCap(cap)
			case "ext":
				c.ObserveExtensionElement(gl.QuadraticExtensionVariable{glv(op.Vals[0]), glv(op.Vals[1])})
			case "exts":
				var es []gl.QuadraticExtensionVariable
				for i := 0; i+1 < len(op.Vals); i += 2 {
					es = append(es, gl.QuadraticExtensionVariable{glv(op.Vals[i]), glv(op.Vals[i+1])})
				}
				c.ObserveExtensionElements(es)
			case "get":
				outs = append(outs, c.GetChallenge().Limb)
			case "getn":
				for _, v := range c.GetNChallenges(uint64(op.N)) {
					outs = append(outs, v.Limb)
				}
			case "getext":
				e := c.GetExtensionChallenge()
				outs = append(outs, e[0].Limb, e[1].Limb)
			case "gethash":
				hh := c.GetHash()
				for _, v := range hh {
					outs = append(outs, v.Limb)
				}
			}
		}
		return nil
	})
	for _, v := range outs {
		out = append(out, engine.Value(v).Uint64())
	}
	return out, res
}

func runHistoryRef(h []chOp) []uint64 {
	c := ref.NewChallenger()
	var out []uint64
	fe := func(b *big.Int) fr.Element { var e fr.Element; e.SetBigInt(b); return e }
	for _, op := range h {
		switch op.Op {
		case "elem", "elems", "hash", "ext", "exts":
			c.ObserveElements(op.Vals)
		case "bnhash":
			c.ObserveBNHash(fe(op.Hs[0]))
		case "cap":
			for _, x := range op.Hs {
				c.ObserveBNHash(fe(x))
			}
		case "get":
			out = append(out, c.GetChallenge())
		case "getn":
			out = append(out, c.GetN(op.N)...)
		case "getext":
			e := c.GetExt()
			out = append(out, e[0], e[1])
		case "gethash":
			hh := c.GetHash()
			out = append(out, hh[:]...)
		}
	}
	return out
}

// transcript challenges of the circuit as a flat list (in drawing order)
func circuitChallenges(in *instT, face engine.Face) ([]uint64, engine.Result) {
	var flat []frontend.Variable
	res := harnRunOpt(engine.Options{Face: face}, func(api frontend.API) error {
		vc := verifier.NewVerifierChip(api, in.Common)
		pih := vc.GetPublicInputsHash(in.PWI.PublicInputs)
		ch := vc.GetChallenges(in.PWI.Proof, pih, in.VD)
		for _, v := range ch.PlonkBetas {
			flat = append(flat, v.Limb)
		}
		for _, v := range ch.PlonkGammas {
			flat = append(flat, v.Limb)
		}
		for _, v := range ch.PlonkAlphas {
			flat = append(flat, v.Limb)
		}
		flat = append(flat, ch.PlonkZeta[0].Limb, ch.PlonkZeta[1].Limb)
		f := ch.FriChallenges
		flat = append(flat, f.FriAlpha[0].Limb, f.FriAlpha[1].Limb)
		for _, b := range f.FriBetas {
			flat = append(flat, b[0].Limb, b[1].Limb)
		}
		flat = append(flat, f.FriPowResponse.Limb)
		for _, q := range f.FriQueryIndices {
			flat = append(flat, q.Limb)
		}
		return nil
	})
	out := make([]uint64, len(flat))
	for i, v := range flat {
		out[i] = engine.Value(v).Uint64()
	}
	return out, res
}

func refChallengesFlat(ch *ref.Challenges) []uint64 {
	var o []uint64
	o = append(o, ch.Betas...)
	o = append(o, ch.Gammas...)
	o = append(o, ch.Alphas...)
	o = append(o, ch.Zeta[0], ch.Zeta[1], ch.FriAlpha[0], ch.FriAlpha[1])
	for _, b := range ch.FriBetas {
		o = append(o, b[0], b[1])
	}
	o = append(o, ch.PowResponse)
	o = append(o, ch.QueryIndicesRaw...)
	return o
}

// transcriptPhase: index of the first challenge (in flat order) drawn after a leaf kind is observed.
// order: betas(2) gammas(2) alphas(2) zeta(2) frialpha(2) fribetas(4) pow(1) indices(28)
func transcriptPhase(kind string) int {
	switch {
	case kind == "VerifierData.CircuitDigest", kind == "PublicInputs[].Limb", kind == "Proof.WiresCap[]":
		return 0
	case kind == "Proof.PlonkZsPartialProductsCap[]":
		return 4
	case kind == "Proof.QuotientPolysCap[]":
		return 6
	case len(kind) > 15 && kind[:15] == "Proof.Openings.":
		return 8
	case strings.HasPrefix(kind, "Proof.OpeningProof.CommitPhaseMerkleCaps"):
		return 10 // cap 0 -> first beta; refined per cap index in the check
	case kind == "Proof.OpeningProof.FinalPoly.Coeffs[][].Limb", kind == "Proof.OpeningProof.PowWitness.Limb":
		return 14
	}
	return -1
}

func init() {
	register("C11", func() *fw.Prop {
		return &fw.Prop{
			ID:          "C11",
			Level:       "exploration",
			Rule:        "cases = 'history' (seeded random observe/squeeze sequences of length 0..200 over element / elements / hash / BN254 hash / cap / extension observations and single / multiple / extension / hash challenge requests, plus forced rate-boundary, observe-after-squeeze and empty-buffer patterns and single batches of 256..1025 extension elements / 1024..2049 elements) executed on the real challenger chip; every squeezed value must equal the native duplex challenger fed the same history; 'transcript' (real proofs and random transcripts of the same shape) -> all challenges of VerifierChip.GetChallenges vs. the reference transcript; 'influence' (real proof, observed leaf position) -> after changing the observed value every challenge drawn before it is unchanged and every challenge drawn after it changes. Non-trivial = at least one challenge compared; distinct by case id. Also: consecutive windows of one slice observed with other observations in between, use of the challenger after GetFriChallenges, description fields the transcript must not depend on varied, and a 46-operation history compiled with a real builder (values are circuit variables).",
			Assumptions: []string{"the reference challenger follows plonky2's Challenger (validated through the challenge values hard-coded in the repository's FRI test and by accepting the real proofs)"},
			MinEvents:   100000,
			Setup:       func(ctx *fw.Ctx) error { return refSelfTest(true) },
			Gen: func(ctx *fw.Ctx) []fw.Case {
				var cs []fw.Case
				nh := 300
				if !ctx.Quick {
					nh = 3000
				}
				for i := range forcedHistories() {
					cs = append(cs, fw.Case{ID: fmt.Sprintf("history/forced/%d", i), Kind: "forced", P: map[string]any{"i": i}})
				}
				for i := 0; i < nh; i++ {
					cs = append(cs, fw.Case{ID: fmt.Sprintf("history/rand/%d", i), Kind: "history", P: map[string]any{"i": i}})
					if i < 40 {
						cs = append(cs, fw.Case{ID: fmt.Sprintf("history/window/%d", i), Kind: "window", P: map[string]any{"i": i}})
					}
					if i < 2 {
						cs = append(cs, fw.Case{ID: fmt.Sprintf("history/compiled/r1cs/%d", i), Kind: "histcompiled", P: map[string]any{"i": i, "sys": "r1cs"}})
						if !ctx.Quick {
							cs = append(cs, fw.Case{ID: fmt.Sprintf("history/compiled/scs/%d", i), Kind: "histcompiled", P: map[string]any{"i": i, "sys": "scs"}})
						}
					}
				}
				nfs := 40
				if !ctx.Quick {
					nfs = 1500
				}
				for i := 0; i < nfs; i++ {
					cs = append(cs, fw.Case{ID: fmt.Sprintf("frishape/%d", i), Kind: "frishape", P: map[string]any{"i": i}})
				}
				cs = append(cs, fw.Case{ID: "twotranscripts/A_testdata+A_testjson", Kind: "twotranscripts", P: map[string]any{"inst": "A_testdata", "other": "A_testjson"}})
				cs = append(cs, fw.Case{ID: "twotranscripts/B_random_CGZ+B_epoch_CbAH", Kind: "twotranscripts", P: map[string]any{"inst": "B_random_CGZ", "other": "B_epoch_CbAH"}})
				for _, n := range instNames(ctx.Quick) {
					cs = append(cs, fw.Case{ID: "transcript/" + n, Kind: "transcript", P: map[string]any{"inst": n}})
					nr := 2
					ni := 24
					if !ctx.Quick {
						nr = 12
						ni = 150
					}
					for i := 0; i < nr; i++ {
						cs = append(cs, fw.Case{ID: fmt.Sprintf("transcript/%s/random/%d", n, i), Kind: "randtranscript", P: map[string]any{"inst": n, "i": i}})
					}
					for i := 0; i < ni; i++ {
						cs = append(cs, fw.Case{ID: fmt.Sprintf("influence/%s/%d", n, i), Kind: "influence", P: map[string]any{"inst": n, "i": i}})
					}
				}
				return cs
			},
			Exec: func(ctx *fw.Ctx, c fw.Case) fw.Outcome {
				var o fw.Outcome
				r := ctx.Rand(c.ID)
				switch c.Kind {
				case "window":
					// the caller observes consecutive windows of ONE slice, with other observations
					// in between: the challenger must not keep (and later write through) the caller's
					// backing array
					n := 12 + r.Intn(12)
					vals := make([]uint64, n)
					for i := range vals {
						vals[i] = randGL(r)
					}
					w := 1 + r.Intn(4)
					extra := []uint64{randGL(r), randGL(r), randGL(r), randGL(r)}
					pre := r.Intn(2) // squeeze first, so that the input buffer is empty
					var outs []frontend.Variable
					res := harnRunOpt(engine.Options{Face: engine.Native}, func(api frontend.API) error {
						c := challenger.NewChip(api)
						backing := make([]gl.Variable, n)
						for i := range backing {
							backing[i] = gl.NewVariable(vals[i])
						}
						if pre == 1 {
							outs = append(outs, c.GetChallenge().Limb)
						}
						for off := 0; off+w <= n; off += w {
							c.ObserveElements(backing[off : off+w])
							switch (off / w) % 3 {
							case 0:
								c.ObserveElement(gl.NewVariable(extra[0]))
							case 1:
								c.ObserveHash(poseidon.GoldilocksHashOut{gl.NewVariable(extra[0]), gl.NewVariable(extra[1]), gl.NewVariable(extra[2]), gl.NewVariable(extra[3])})
							case 2:
								c.ObserveExtensionElement(gl.QuadraticExtensionVariable{gl.NewVariable(extra[1]), gl.NewVariable(extra[2])})
							}
						}
						for _, v := range c.GetNChallenges(4) {
							outs = append(outs, v.Limb)
						}
						// the caller's slice must be untouched
						for i := range backing {
							api.AssertIsEqual(backing[i].Limb, vals[i])
						}
						return nil
					})
					o.Events += events(res) + 1
					if !res.AcceptedHonestly() {
						return fw.Violate("challenger_modifies_callers_slice", fmt.Sprintf("windows of %d over %d values: %s %s", w, n, resStr(res), res.Msg))
					}
					rc := ref.NewChallenger()
					var want []uint64
					if pre == 1 {
						want = append(want, rc.GetChallenge())
					}
					for off := 0; off+w <= n; off += w {
						rc.ObserveElements(vals[off : off+w])
						switch (off / w) % 3 {
						case 0:
							rc.ObserveElement(extra[0])
						case 1:
							rc.ObserveElements(extra)
						case 2:
							rc.ObserveElements(extra[1:3])
						}
					}
					want = append(want, rc.GetN(4)...)
					for i := range want {
						if engine.Value(outs[i]).Uint64() != want[i] {
							return fw.Violate("wrong_challenge", fmt.Sprintf("consecutive windows (width %d) of one slice with other observations in between: challenge %d circuit %s reference %d", w, i, engine.Value(outs[i]), want[i]))
						}
					}
					o.Inc("window_histories_compared")
				case "histcompiled":
					// one history structure (which operations, how many values each) compiled with a
					// real builder; the observed values are circuit variables, several value sets
					// are solved and the squeezed challenges compared with the reference
					structure := append([]chOp{}, genHistory(r, 40)...)
					structure = append(structure, chOp{Op: "getn", N: 3}, chOp{Op: "elems"}, chOp{Op: "getext"}, chOp{Op: "elems", Vals: make([]uint64, 8)}, chOp{Op: "gethash"}, chOp{Op: "get"})
					nIn := 0
					for _, op := range structure {
						nIn += len(op.Vals) + len(op.Hs)
					}
					nOut := len(runHistoryRef(structure))
					fn := func(api frontend.API, in []frontend.Variable) []frontend.Variable {
						c := challenger.NewChip(api)
						pos := 0
						var outs []frontend.Variable
						for _, op := range structure {
							vs := make([]gl.Variable, len(op.Vals))
							for i := range vs {
								vs[i] = gl.NewVariable(in[pos])
								pos++
							}
							hs := make([]frontend.Variable, len(op.Hs))
							for i := range hs {
								hs[i] = in[pos]
								pos++
							}
							switch op.Op {
							case "elem":
								c.ObserveElement(vs[0])
							case "elems":
								c.ObserveElements(vs)
							case "hash":
								c.ObserveHash(poseidon.GoldilocksHashOut{vs[0], vs[1], vs[2], vs[3]})
							case "bnhash":
								c.ObserveBN254Hash(hs[0])
							case "cap":
								cap := make([]poseidon.BN254HashOut, len(hs))
								for i := range cap {
									cap[i] = hs[i]
								}
								c.ObserveCap(cap)
							case "ext":
								c.ObserveExtensionElement(gl.QuadraticExtensionVariable{vs[0], vs[1]})
							case "exts":
								var es []gl.QuadraticExtensionVariable
								for i := 0; i+1 < len(vs); i += 2 {
									es = append(es, gl.QuadraticExtensionVariable{vs[i], vs[i+1]})
								}
								c.ObserveExtensionElements(es)
							case "get":
								outs = append(outs, c.GetChallenge().Limb)
							case "getn":
								for _, v := range c.GetNChallenges(uint64(op.N)) {
									outs = append(outs, v.Limb)
								}
							case "getext":
								e := c.GetExtensionChallenge()
								outs = append(outs, e[0].Limb, e[1].Limb)
							case "gethash":
								for _, v := range c.GetHash() {
									outs = append(outs, v.Limb)
								}
							}
						}
						return outs
					}
					var ios []compiledIO
					nv := 3
					if !ctx.Quick {
						nv = 12
					}
					for k := 0; k < nv; k++ {
						h := make([]chOp, len(structure))
						var in []*big.Int
						for i, op := range structure {
							h[i] = chOp{Op: op.Op, N: op.N}
							for range op.Vals {
								v := randGL(r)
								h[i].Vals = append(h[i].Vals, v)
								in = append(in, bu(v))
							}
							for range op.Hs {
								v := randBig(r, bigR)
								h[i].Hs = append(h[i].Hs, v)
								in = append(in, v)
							}
						}
						var out []*big.Int
						for _, v := range runHistoryRef(h) {
							out = append(out, bu(v))
						}
						ios = append(ios, compiledIO{In: in, Out: out})
					}
					if v, bad := compiledAgree(&o, c.Str("sys"), "challenger_history", fn, nIn, nOut, ios); bad {
						return v
					}
					o.Sample = map[string]any{"system": c.Str("sys"), "ops": len(structure), "inputs": nIn, "challenges": nOut}
				case "forced", "history":
					var h []chOp
					if c.Kind == "forced" {
						h = forcedHistories()[c.Int("i")]
					} else {
						h = genHistory(r, r.Intn(201))
					}
					face := engine.Native
					if c.Int("i")%7 == 3 {
						face = engine.Plain
					}
					got, res := runHistoryCircuit(face, h)
					o.Events += events(res) + len(h)
					if io, bad := inconclusiveIf(res); bad {
						return io
					}
					if !res.AcceptedHonestly() {
						return fw.Violate("challenger_failed", fmt.Sprintf("history of %d ops: %s", len(h), resStr(res)))
					}
					want := runHistoryRef(h)
					if len(got) != len(want) {
						return fw.Violate("challenge_count", fmt.Sprintf("%d vs %d", len(got), len(want)))
					}
					for i := range want {
						if got[i] != want[i] {
							ops := ""
							for _, op := range h {
								ops += op.Op + fmt.Sprintf("(%d,%d) ", len(op.Vals)+len(op.Hs), op.N)
							}
							return fw.Violate("wrong_challenge", fmt.Sprintf("challenge %d of %d: circuit %d, reference %d; history: %s", i, len(want), got[i], want[i], trunc(ops, 400)))
						}
					}
					o.Add("challenges_compared", len(want))
					o.Add("history_ops", len(h))
					if len(want) == 0 {
						o.Trivial = c.Kind == "history" && len(h) == 0
					}
					o.Sample = map[string]any{"ops": len(h), "challenges": len(want)}
				case "twotranscripts":
					// one VerifierChip deriving the challenges of two proofs: each transcript starts fresh
					a, b := getInst(c.Str("inst")), getInst(c.Str("other"))
					var f1, f2 []frontend.Variable
					flatten := func(ch variables.ProofChallenges) []frontend.Variable {
						var flat []frontend.Variable
						for _, v := range ch.PlonkBetas {
							flat = append(flat, v.Limb)
						}
						for _, v := range ch.PlonkGammas {
							flat = append(flat, v.Limb)
						}
						for _, v := range ch.PlonkAlphas {
							flat = append(flat, v.Limb)
						}
						flat = append(flat, ch.PlonkZeta[0].Limb, ch.PlonkZeta[1].Limb)
						fc := ch.FriChallenges
						flat = append(flat, fc.FriAlpha[0].Limb, fc.FriAlpha[1].Limb)
						for _, x := range fc.FriBetas {
							flat = append(flat, x[0].Limb, x[1].Limb)
						}
						flat = append(flat, fc.FriPowResponse.Limb)
						for _, q := range fc.FriQueryIndices {
							flat = append(flat, q.Limb)
						}
						return flat
					}
					res := harnRunOpt(engine.Options{Face: engine.Native}, func(api frontend.API) error {
						vc := verifier.NewVerifierChip(api, a.Common)
						f1 = flatten(vc.GetChallenges(a.PWI.Proof, vc.GetPublicInputsHash(a.PWI.PublicInputs), a.VD))
						f2 = flatten(vc.GetChallenges(b.PWI.Proof, vc.GetPublicInputsHash(b.PWI.PublicInputs), b.VD))
						return nil
					})
					o.Events += events(res)
					if !res.AcceptedHonestly() {
						return fw.Violate("get_challenges_failed", resStr(res))
					}
					for k, pair := range []struct {
						in   *instT
						flat []frontend.Variable
					}{{a, f1}, {b, f2}} {
						p, _ := toRefProof(&pair.in.PWI)
						rch, _ := ref.GetChallenges(p, toRefVD(&pair.in.VD), refCommon(pair.in))
						want := refChallengesFlat(rch)
						for i := range want {
							if engine.Value(pair.flat[i]).Uint64() != want[i] {
								return fw.Violate("wrong_transcript_challenge_on_reused_chip", fmt.Sprintf("transcript #%d derived by one VerifierChip: challenge #%d circuit %s reference %d", k+1, i, engine.Value(pair.flat[i]), want[i]))
							}
						}
						o.Add("challenges_compared", len(want))
					}
					o.Inc("transcript_pairs_on_one_chip")
				case "frishape":
					// GetFriChallenges on random shapes: 0..4 commit-phase caps of 1..16 entries, final
					// polynomial of 0..20 coefficients, 0..40 query indices, after a random prefix
					pre := genHistory(r, r.Intn(12))
					ncaps := r.Intn(5)
					caps := make([][]*big.Int, ncaps)
					for i := range caps {
						caps[i] = make([]*big.Int, 1+r.Intn(16))
						for j := range caps[i] {
							caps[i][j] = randBig(r, bigR)
						}
					}
					fp := make([]ref.E, r.Intn(21))
					for i := range fp {
						fp[i] = randE(r)
					}
					pow := randGL(r)
					nq := r.Intn(41)
					var flat []frontend.Variable
					res := harnRunOpt(engine.Options{Face: engine.Native}, func(api frontend.API) error {
						c := challenger.NewChip(api)
						for _, op := range pre {
							if len(op.Vals) > 0 {
								vs := make([]gl.Variable, len(op.Vals))
								for i := range vs {
									vs[i] = gl.NewVariable(op.Vals[i])
								}
								c.ObserveElements(vs)
							}
							if op.Op == "get" {
								c.GetChallenge()
							}
						}
						var vcaps []variables.FriMerkleCap
						for _, cp := range caps {
							vc := make(variables.FriMerkleCap, len(cp))
							for j := range cp {
								vc[j] = cp[j]
							}
							vcaps = append(vcaps, vc)
						}
						fc := c.GetFriChallenges(vcaps, variables.PolynomialCoeffs{Coeffs: qes(fp)}, gl.NewVariable(pow), types.FriConfig{NumQueryRounds: uint64(nq)})
						flat = append(flat, fc.FriAlpha[0].Limb, fc.FriAlpha[1].Limb)
						for _, b := range fc.FriBetas {
							flat = append(flat, b[0].Limb, b[1].Limb)
						}
						flat = append(flat, fc.FriPowResponse.Limb)
						for _, q := range fc.FriQueryIndices {
							flat = append(flat, q.Limb)
						}
						// the challenger stays usable: what it absorbed for the FRI challenges must
						// influence everything drawn afterwards
						flat = append(flat, c.GetChallenge().Limb)
						c.ObserveElement(gl.NewVariable(pow))
						for _, v := range c.GetNChallenges(3) {
							flat = append(flat, v.Limb)
						}
						return nil
					})
					o.Events += events(res) + 1
					if !res.AcceptedHonestly() {
						return fw.Violate("get_fri_challenges_failed", fmt.Sprintf("caps=%d final=%d queries=%d: %s", ncaps, len(fp), nq, resStr(res)))
					}
					rc := ref.NewChallenger()
					for _, op := range pre {
						if len(op.Vals) > 0 {
							rc.ObserveElements(op.Vals)
						}
						if op.Op == "get" {
							rc.GetChallenge()
						}
					}
					var want []uint64
					a := rc.GetExt()
					want = append(want, a[0], a[1])
					for _, cp := range caps {
						for _, h := range cp {
							var e fr.Element
							e.SetBigInt(h)
							rc.ObserveBNHash(e)
						}
						b := rc.GetExt()
						want = append(want, b[0], b[1])
					}
					rc.ObserveExts(fp)
					rc.ObserveElement(pow)
					want = append(want, rc.GetChallenge())
					want = append(want, rc.GetN(nq)...)
					want = append(want, rc.GetChallenge())
					rc.ObserveElement(pow)
					want = append(want, rc.GetN(3)...)
					if len(flat) != len(want) {
						return fw.Violate("challenge_count", fmt.Sprintf("fri challenges: %d vs %d (caps=%d queries=%d)", len(flat), len(want), ncaps, nq))
					}
					for i := range want {
						if engine.Value(flat[i]).Uint64() != want[i] {
							return fw.Violate("wrong_fri_challenge", fmt.Sprintf("caps=%d final=%d queries=%d: value #%d circuit %s reference %d", ncaps, len(fp), nq, i, engine.Value(flat[i]), want[i]))
						}
					}
					o.Add("challenges_compared", len(want))
					o.Inc("fri_shapes_checked")
					o.Sample = map[string]any{"caps": ncaps, "final_poly": len(fp), "queries": nq}
				case "transcript", "randtranscript", "influence":
					in := getInst(c.Str("inst")).Clone()
					var changedKind string
					var changedIdx int
					if c.Kind == "randtranscript" {
						// random values everywhere the transcript reads (same shape)
						for _, l := range c01Leaves(in) {
							if _, _, inRound := splitRoundPath(l.Path); inRound {
								continue
							}
							if l.GL {
								l.Set(randGL(r))
							} else {
								l.Set(randBig(r, bigR))
							}
						}
					}
					if c.Kind == "randtranscript" && c.Int("i")%2 == 1 {
						// description fields the transcript does not depend on (plonky2 draws
						// num_challenges betas / gammas / alphas whatever the other counts are)
						in.Common.Config.NumConstants += uint64(1 + r.Intn(3))
						in.Common.Config.NumWires += uint64(r.Intn(3))
						in.Common.NumGateConstraints += uint64(r.Intn(3))
					}
					base, res0 := circuitChallenges((*instT)(in), engine.Native)
					o.Events += events(res0)
					if !res0.AcceptedHonestly() {
						return fw.Violate("get_challenges_failed", resStr(res0))
					}
					p, ok := toRefProof(&in.PWI)
					if !ok {
						return fw.Inconcl("non canonical")
					}
					rch, _ := ref.GetChallenges(p, toRefVD(&in.VD), refCommon(in))
					want := refChallengesFlat(rch)
					if len(base) != len(want) {
						return fw.Violate("challenge_count", fmt.Sprintf("%d vs %d", len(base), len(want)))
					}
					for i := range want {
						if base[i] != want[i] {
							return fw.Violate("wrong_transcript_challenge", fmt.Sprintf("%s: challenge #%d (order betas,gammas,alphas,zeta,fri alpha,fri betas,pow,indices): circuit %d reference %d", c.ID, i, base[i], want[i]))
						}
					}
					o.Add("challenges_compared", len(want))
					if c.Kind != "influence" {
						o.Sample = map[string]any{"challenges": len(want), "first": want[0]}
						return o
					}
					// influence
					var cands []circ.Leaf
					for _, l := range c01Leaves(in) {
						if transcriptPhase(l.Kind) >= 0 {
							cands = append(cands, l)
						}
					}
					l := cands[r.Intn(len(cands))]
					changedKind = l.Kind
					old := l.Big()
					if l.GL {
						l.Set(ref.Add(old.Uint64(), 1+uint64(r.Intn(1000))))
					} else {
						l.Set(new(big.Int).Mod(new(big.Int).Add(old, big.NewInt(int64(1+r.Intn(1000)))), bigR))
					}
					phase := transcriptPhase(changedKind)
					if strings.HasPrefix(changedKind, "Proof.OpeningProof.CommitPhaseMerkleCaps") {
						var ci, cj int
						fmt.Sscanf(l.Path, "Proof.OpeningProof.CommitPhaseMerkleCaps[%d][%d]", &ci, &cj)
						phase = 10 + 2*ci
						changedIdx = ci
					}
					_ = changedIdx
					after, res1 := circuitChallenges((*instT)(in), engine.Native)
					o.Events += events(res1)
					if !res1.AcceptedHonestly() {
						return fw.Violate("get_challenges_failed", resStr(res1))
					}
					for i := range base {
						if i < phase && after[i] != base[i] {
							return fw.Violate("challenge_depends_on_later_data", fmt.Sprintf("changing %s altered challenge #%d drawn before it was observed", l.Path, i))
						}
						if i >= phase && after[i] == base[i] {
							return fw.Violate("challenge_ignores_observed_data:"+changedKind, fmt.Sprintf("changing %s left challenge #%d unchanged (first affected should be #%d)", l.Path, i, phase))
						}
					}
					o.Inc("influence_positions_checked")
					o.Inc("influence[" + changedKind + "]")
					o.Sample = map[string]any{"changed": l.Path, "first_affected_challenge": phase, "total_challenges": len(base)}
				}
				return o
			},
		}
	})

	register("C12", func() *fw.Prop {
		return &fw.Prop{
			ID:          "C12",
			Level:       "exploration",
			Rule:        "cases = (tree height 4..12, leaf width in {1,2,3,4,5,9,10,17,63,85,135,140}, leaf index, corruption in {none, leaf element, sibling, index bit, cap-index bit, selected cap entry, unselected cap entry, swapped left/right of one level, wrong cap slot}) executed through the repository's Merkle gadget (verif hook) on synthetic trees built with the reference PoseidonBN128; oracle is the iff: ACCEPT exactly when the reference fold of the (possibly corrupted) data, ordered by the (possibly corrupted) index bits, equals the cap entry the (possibly corrupted) cap bits select. Non-trivial = every case (both accept and reject expectations occur); distinct by case id. Also: structured corruption steps (+-1, multiples of the Goldilocks prime, limb-sized powers of two), a non-boolean index bit with a crafted sibling, and the gadget compiled with a real builder on three tree shapes.",
			Assumptions: []string{"cap height is 4 (the gadget refuses anything else; C20 covers that)"},
			MinEvents:   2000,
			Setup:       func(ctx *fw.Ctx) error { return refSelfTest(false) },
			Gen: func(ctx *fw.Ctx) []fw.Case {
				var cs []fw.Case
				widths := []int{1, 2, 3, 4, 5, 9, 10, 17, 63, 85, 135, 140}
				hs := []int{4, 5, 6, 8, 12}
				if !ctx.Quick {
					hs = []int{4, 5, 6, 7, 8, 9, 10, 11, 12}
					widths = nil
					for w := 1; w <= 140; w++ {
						if w <= 30 || w%9 <= 1 || w == 63 || w == 85 || w == 135 || w == 140 {
							widths = append(widths, w)
						}
					}
				}
				corr := []string{"none", "leaf", "sibling", "indexbit", "capbit", "capsel", "capunsel", "swaplr", "wrongslot"}
				for _, h := range hs {
					for wi, w := range widths {
						if ctx.Quick && (h+wi)%2 != 0 {
							continue
						}
						if h >= 10 && w > 17 {
							continue // tree construction cost
						}
						cs = append(cs, fw.Case{ID: fmt.Sprintf("h%d/w%d", h, w), Kind: "tree", P: map[string]any{"h": h, "w": w, "corr": corr}})
						if (h == 6 || h == 8) && w == 5 {
							cs = append(cs, fw.Case{ID: fmt.Sprintf("h%d/w%d/cap32", h, w), Kind: "cap32", P: map[string]any{"h": h, "w": w}})
						}
						if h <= 8 && (w == 1 || w == 5 || w == 10) {
							cs = append(cs, fw.Case{ID: fmt.Sprintf("h%d/w%d/repeated_subtrees", h, w), Kind: "tree", P: map[string]any{"h": h, "w": w, "corr": corr, "repeat": 1}})
						}
						if (h == 8 && w == 5) || (h == 5 && w == 2) || (h == 6 && w == 10) {
							cs = append(cs, fw.Case{ID: fmt.Sprintf("compiled/r1cs/h%d/w%d", h, w), Kind: "compiled", P: map[string]any{"h": h, "w": w, "sys": "r1cs"}})
							if !ctx.Quick {
								cs = append(cs, fw.Case{ID: fmt.Sprintf("compiled/scs/h%d/w%d", h, w), Kind: "compiled", P: map[string]any{"h": h, "w": w, "sys": "scs"}})
							}
						}
						if !ctx.Quick && h <= 9 {
							cs = append(cs, fw.Case{ID: fmt.Sprintf("h%d/w%d/rep1", h, w), Kind: "tree", P: map[string]any{"h": h, "w": w, "corr": corr}})
						}
					}
				}
				return cs
			},
			Exec: func(ctx *fw.Ctx, c fw.Case) fw.Outcome {
				var o fw.Outcome
				r := ctx.Rand(c.ID)
				h, w := c.Int("h"), c.Int("w")
				n := 1 << h
				leaves := make([][]ref.F, n)
				for i := range leaves {
					leaves[i] = make([]ref.F, w)
					for j := range leaves[i] {
						leaves[i][j] = randGL(r)
					}
				}
				if c.Int("repeat") == 1 {
					// repeated subtrees: the second quarter of the leaves equals the first one, the last
					// leaves are all equal (several cap entries hold the same digest)
					for i := 0; i < n/4; i++ {
						leaves[n/4+i] = append([]ref.F(nil), leaves[i]...)
					}
					for i := 3 * n / 4; i < n; i++ {
						leaves[i] = append([]ref.F(nil), leaves[3*n/4]...)
					}
				}
				if c.Kind == "cap32" {
					// a cap of 32 entries with five cap-index bits: either refused, or the slot named by
					// ALL five bits must hold the digest (never a slot named by a part of the bits)
					t5 := ref.BuildMerkle(leaves, 5)
					for k := 0; k < 6; k++ {
						slot := 16 + r.Intn(16)
						lowBits := h - 5
						idx := slot<<uint(lowBits) | r.Intn(1<<uint(lowBits))
						sib := t5.Prove(idx)
						cap := append([]fr.Element(nil), t5.Cap...)
						// the digest sits in slot-16 only; the named slot holds something else
						cap[slot-16] = cap[slot]
						cap[slot].SetUint64(uint64(12345 + k))
						res := harnRunOpt(engine.Options{Face: engine.Native}, func(api frontend.API) error {
							cd := types.CommonCircuitData{}
							fc := fri.NewChip(api, &cd, &cd.FriParams)
							lv := make([]gl.Variable, w)
							for i := range lv {
								lv[i] = gl.NewVariable(leaves[idx][i])
							}
							lb := make([]frontend.Variable, lowBits)
							for i := range lb {
								lb[i] = (idx >> uint(i)) & 1
							}
							cb := make([]frontend.Variable, 5)
							for i := range cb {
								cb[i] = (slot >> uint(i)) & 1
							}
							mc := make(variables.FriMerkleCap, 32)
							for i := range mc {
								mc[i] = frBig(cap[i])
							}
							mp := variables.FriMerkleProof{}
							for _, s := range sib {
								mp.Siblings = append(mp.Siblings, frBig(s))
							}
							fc.VerifMerkle(lv, lb, cb, mc, &mp)
							return nil
						})
						o.Events += events(res) + 1
						if res.Verdict == engine.Accept {
							return fw.Violate("merkle_accepts_wrong_opening:cap_of_32_entries", fmt.Sprintf("height %d: opening for cap slot %d accepted although the digest sits in slot %d", h, slot, slot-16))
						}
						o.Inc("cap32_" + res.Verdict.String())
					}
					return o
				}
				tree := ref.BuildMerkle(leaves, 4)
				if c.Kind == "compiled" {
					// the Merkle gadget on a really compiled system: honest openings solvable,
					// openings with one changed value not
					lowBits := h - 4
					fn := func(api frontend.API, in []frontend.Variable) []frontend.Variable {
						cd := types.CommonCircuitData{}
						fc := fri.NewChip(api, &cd, &cd.FriParams)
						lv := make([]gl.Variable, w)
						for i := range lv {
							lv[i] = gl.NewVariable(in[i])
						}
						pos := w
						lb := append([]frontend.Variable(nil), in[pos:pos+lowBits]...)
						pos += lowBits
						cb := append([]frontend.Variable(nil), in[pos:pos+4]...)
						pos += 4
						mc := make(variables.FriMerkleCap, 16)
						for i := range mc {
							mc[i] = in[pos+i]
						}
						pos += 16
						mp := variables.FriMerkleProof{}
						for i := 0; i < lowBits; i++ {
							mp.Siblings = append(mp.Siblings, in[pos+i])
						}
						for _, b := range lb {
							api.AssertIsBoolean(b)
						}
						for _, b := range cb {
							api.AssertIsBoolean(b)
						}
						fc.VerifMerkle(lv, lb, cb, mc, &mp)
						return nil
					}
					mk := func(idx int, leaf []ref.F, sib, cap []fr.Element, flipBit int) []*big.Int {
						var in []*big.Int
						for _, x := range leaf {
							in = append(in, bu(x))
						}
						for i := 0; i < h; i++ {
							b := uint64(idx>>uint(i)) & 1
							if i == flipBit {
								b ^= 1
							}
							in = append(in, bu(b))
						}
						for _, x := range cap {
							in = append(in, frBig(x))
						}
						for _, x := range sib {
							in = append(in, frBig(x))
						}
						return in
					}
					var ios []compiledIO
					nop := 4
					if !ctx.Quick {
						nop = 16
					}
					for k := 0; k < nop; k++ {
						idx := r.Intn(n)
						if k == 0 {
							idx = n - 1
						}
						sib := tree.Prove(idx)
						ios = append(ios, compiledIO{In: mk(idx, leaves[idx], sib, tree.Cap, -1)})
						bad := append([]ref.F(nil), leaves[idx]...)
						bad[r.Intn(w)] = ref.Add(bad[r.Intn(w)], 1)
						if d, _ := ref.MerkleFold(bad, uint64(idx)&(1<<uint(lowBits)-1), sib); !d.Equal(&tree.Cap[idx>>uint(lowBits)]) {
							ios = append(ios, compiledIO{In: mk(idx, bad, sib, tree.Cap, -1), Reject: true})
						}
						ios = append(ios, compiledIO{In: mk(idx, leaves[idx], sib, tree.Cap, r.Intn(h)), Reject: true})
						if len(sib) > 0 {
							s2 := append([]fr.Element(nil), sib...)
							var one fr.Element
							one.SetOne()
							if r.Intn(3) == 0 {
								// a structured step: multiples of the Goldilocks prime, limb / chunk sized
								// powers of two (a comparison done after a reduction must not hide it)
								d := []*big.Int{bigP, new(big.Int).Lsh(bigP, 100), new(big.Int).Lsh(bigP, 64), pow2(64), pow2(128), pow2(192), pow2(56)}[r.Intn(7)]
								one.SetBigInt(d)
							}
							if r.Intn(2) == 0 {
								one.Neg(&one) // either direction: a one-sided comparison must not hide it
							}
							s2[r.Intn(len(s2))].Add(&s2[r.Intn(len(s2))], &one)
							if d, _ := ref.MerkleFold(leaves[idx], uint64(idx)&(1<<uint(lowBits)-1), s2); !d.Equal(&tree.Cap[idx>>uint(lowBits)]) {
								ios = append(ios, compiledIO{In: mk(idx, leaves[idx], s2, tree.Cap, -1), Reject: true})
							}
						}
					}
					if v, bad := compiledAgree(&o, c.Str("sys"), "merkle", fn, w+lowBits+4+16+lowBits, 0, ios); bad {
						return v
					}
					o.Sample = map[string]any{"system": c.Str("sys"), "height": h, "width": w}
					return o
				}
				var idxs []int
				if n <= 64 {
					for i := 0; i < n; i++ {
						idxs = append(idxs, i)
					}
				} else {
					idxs = []int{0, n - 1, n / 2}
					for k := 0; k < 12; k++ {
						idxs = append(idxs, r.Intn(n))
					}
				}
				corrs := []string{"none", "leaf", "sibling", "indexbit", "capbit", "capsel", "capunsel", "swaplr", "wrongslot", "nonboolbit", "zerosibling"}
				for _, idx := range idxs {
					sib := tree.Prove(idx)
					for _, corr := range corrs {
						leaf := append([]ref.F(nil), leaves[idx]...)
						sb := append([]fr.Element(nil), sib...)
						cap := append([]fr.Element(nil), tree.Cap...)
						lowBits := h - 4
						index := uint64(idx)
						capIdx := uint64(idx) >> uint(lowBits)
						low := index & (1<<uint(lowBits) - 1)
						var bit0 *big.Int // non-boolean value in the first index-bit position
						switch corr {
						case "zerosibling":
							// the top sibling replaced by 0 and the selected cap entry by the node below
							// the cap: a gadget that treats a zero sibling as "no level" would accept
							if len(sb) == 0 {
								continue
							}
							below, _ := ref.MerkleFold(leaf, low, sb[:len(sb)-1])
							sb[len(sb)-1].SetZero()
							cap[capIdx] = below
						case "nonboolbit":
							// a leaf that is not in the tree, a crafted first sibling s' = L+R-d and the
							// "bit" t = (L-d)/(s'-d): an ordering computed arithmetically from the bit
							// instead of selected by it would rebuild the true children (L, R)
							if lowBits == 0 {
								continue
							}
							cur0 := ref.BNHashOrNoop(leaf)
							L, R := cur0, sb[0]
							if low&1 == 1 {
								L, R = sb[0], cur0
							}
							leaf[r.Intn(w)] = ref.Add(leaf[r.Intn(w)], 1)
							d := ref.BNHashOrNoop(leaf)
							var s2, num, den, t fr.Element
							s2.Add(&L, &R).Sub(&s2, &d)
							num.Sub(&L, &d)
							den.Sub(&s2, &d)
							if den.IsZero() || d.Equal(&cur0) {
								continue
							}
							t.Div(&num, &den)
							if t.IsZero() || t.IsOne() {
								continue // the neighbouring leaf happens to hold the forged value: an honest opening
							}
							sb[0] = s2
							bit0 = frBig(t)
						case "leaf":
							k := r.Intn(w)
							if r.Intn(3) == 0 {
								k = w - 1
							}
							leaf[k] = ref.Add(leaf[k], 1) // exactly one element
						case "sibling":
							if len(sb) == 0 {
								continue
							}
							var one fr.Element
							one.SetOne()
							if r.Intn(3) == 0 {
								// a structured step: multiples of the Goldilocks prime, limb / chunk sized
								// powers of two (a comparison done after a reduction must not hide it)
								d := []*big.Int{bigP, new(big.Int).Lsh(bigP, 100), new(big.Int).Lsh(bigP, 64), pow2(64), pow2(128), pow2(192), pow2(56)}[r.Intn(7)]
								one.SetBigInt(d)
							}
							if r.Intn(2) == 0 {
								one.Neg(&one) // either direction: a one-sided comparison must not hide it
							}
							k := r.Intn(len(sb))
							sb[k].Add(&sb[k], &one)
						case "indexbit":
							if lowBits == 0 {
								continue
							}
							low ^= 1 << uint(r.Intn(lowBits))
						case "capbit":
							capIdx ^= 1 << uint(r.Intn(4))
						case "capsel":
							var one fr.Element
							one.SetOne()
							if r.Intn(3) == 0 {
								// a structured step: multiples of the Goldilocks prime, limb / chunk sized
								// powers of two (a comparison done after a reduction must not hide it)
								d := []*big.Int{bigP, new(big.Int).Lsh(bigP, 100), new(big.Int).Lsh(bigP, 64), pow2(64), pow2(128), pow2(192), pow2(56)}[r.Intn(7)]
								one.SetBigInt(d)
							}
							if r.Intn(2) == 0 {
								one.Neg(&one) // either direction: a one-sided comparison must not hide it
							}
							cap[capIdx].Add(&cap[capIdx], &one)
						case "capunsel":
							var one fr.Element
							one.SetOne()
							if r.Intn(3) == 0 {
								// a structured step: multiples of the Goldilocks prime, limb / chunk sized
								// powers of two (a comparison done after a reduction must not hide it)
								d := []*big.Int{bigP, new(big.Int).Lsh(bigP, 100), new(big.Int).Lsh(bigP, 64), pow2(64), pow2(128), pow2(192), pow2(56)}[r.Intn(7)]
								one.SetBigInt(d)
							}
							if r.Intn(2) == 0 {
								one.Neg(&one) // either direction: a one-sided comparison must not hide it
							}
							k := (int(capIdx) + 1 + r.Intn(15)) % 16
							cap[k].Add(&cap[k], &one)
						case "swaplr":
							if lowBits == 0 {
								continue
							}
							low ^= 1 // flips the left/right order at level 0
						case "wrongslot":
							k := (int(capIdx) + 1 + r.Intn(15)) % 16
							cap[capIdx], cap[k] = cap[k], cap[capIdx]
						}
						// reference iff
						d, _ := ref.MerkleFold(leaf, low, sb)
						want := d.Equal(&cap[capIdx]) && bit0 == nil
						res := harnRunOpt(engine.Options{Face: engine.Native}, func(api frontend.API) error {
							cd := types.CommonCircuitData{}
							fc := fri.NewChip(api, &cd, &cd.FriParams)
							lv := make([]gl.Variable, len(leaf))
							for i := range leaf {
								lv[i] = gl.NewVariable(leaf[i])
							}
							lb := make([]frontend.Variable, lowBits)
							for i := range lb {
								lb[i] = (low >> uint(i)) & 1
							}
							if bit0 != nil {
								lb[0] = bit0
							}
							cb := make([]frontend.Variable, 4)
							for i := range cb {
								cb[i] = (capIdx >> uint(i)) & 1
							}
							mc := make(variables.FriMerkleCap, 16)
							for i := range mc {
								mc[i] = frBig(cap[i])
							}
							mp := variables.FriMerkleProof{}
							for _, s := range sb {
								mp.Siblings = append(mp.Siblings, frBig(s))
							}
							fc.VerifMerkle(lv, lb, cb, mc, &mp)
							return nil
						})
						o.Events += events(res) + 1
						if io, bad := inconclusiveIf(res); bad {
							return io
						}
						acc := res.Verdict == engine.Accept
						if acc && !want {
							return fw.Violate("merkle_accepts_wrong_opening:"+corr, fmt.Sprintf("height %d width %d index %d corruption %s", h, w, idx, corr))
						}
						if !acc && want {
							return fw.Violate("merkle_rejects_valid_opening:"+corr, fmt.Sprintf("height %d width %d index %d corruption %s: %s", h, w, idx, corr, resStr(res)))
						}
						if want {
							o.Inc("accepted_" + corr)
						} else {
							o.Inc("rejected_" + corr)
						}
					}
				}
				// several openings of the same tree verified by ONE chip in ONE circuit, the last one
				// optionally corrupted: verdict = conjunction of the individual verdicts
				for variant := 0; variant < 2; variant++ {
					type op struct {
						leaf []ref.F
						low  uint64
						cidx uint64
						sib  []fr.Element
					}
					var ops []op
					lowBits := h - 4
					for k := 0; k < 5; k++ {
						idx := idxs[r.Intn(len(idxs))]
						ops = append(ops, op{append([]ref.F(nil), leaves[idx]...), uint64(idx) & (1<<uint(lowBits) - 1), uint64(idx) >> uint(lowBits), tree.Prove(idx)})
					}
					if variant == 1 {
						last := &ops[len(ops)-1]
						last.leaf[r.Intn(w)] = ref.Add(last.leaf[r.Intn(w)], 1)
						k := r.Intn(w)
						last.leaf[k] = ref.Add(leaves[idxs[0]][k], 7)
					}
					wantAll := true
					for _, p := range ops {
						d, _ := ref.MerkleFold(p.leaf, p.low, p.sib)
						if !d.Equal(&tree.Cap[p.cidx]) {
							wantAll = false
						}
					}
					res := harnRunOpt(engine.Options{Face: engine.Native}, func(api frontend.API) error {
						cd := types.CommonCircuitData{}
						fc := fri.NewChip(api, &cd, &cd.FriParams)
						mc := make(variables.FriMerkleCap, 16)
						for i := range mc {
							mc[i] = frBig(tree.Cap[i])
						}
						for _, p := range ops {
							lv := make([]gl.Variable, len(p.leaf))
							for i := range p.leaf {
								lv[i] = gl.NewVariable(p.leaf[i])
							}
							mp := variables.FriMerkleProof{}
							for _, sb := range p.sib {
								mp.Siblings = append(mp.Siblings, frBig(sb))
							}
							fc.VerifMerkle(lv, bitsOf(p.low, lowBits), bitsOf(p.cidx, 4), mc, &mp)
						}
						return nil
					})
					o.Events += events(res) + len(ops)
					if acc := res.Verdict == engine.Accept; acc != wantAll {
						return fw.Violate("merkle_sequence_verdict_differs", fmt.Sprintf("height %d width %d: five openings on one chip, circuit %s, reference all-valid=%v", h, w, resStr(res), wantAll))
					}
					o.Inc("opening_sequences_checked")
				}
				o.Sample = map[string]any{"height": h, "width": w, "indices": len(idxs)}
				return o
			},
		}
	})

	register("C14", func() *fw.Prop {
		return &fw.Prop{
			ID:          "C14",
			Level:       "exploration",
			Rule:        "cases = 'gadget' (range-check configuration in {native, plain, env-forced bit decomposition (child process), commit}, difficulty b in 1..63 — under commit only b with 64-b a multiple of 16 are supported, the others must be REFUSED —, response in {2^(64-b)-1, 2^(64-b), 2^(64-b)+1, p-1, 0, 1, random}) through the repository's assertLeadingZeros (verif hook): ACCEPT iff response < 2^(64-b); 'witness' (real proof, substituted proof-of-work witness) through the whole circuit: the in-circuit response must equal the reference response for the supplied witness and the verdict must be REJECT unless the reference accepts. Non-trivial = both an accepting and a rejecting response were judged for the configuration, or the witness differs from the proof's; distinct by case id. Also: the difficulty raised in fri_params.config alone must be enough to refuse.",
			Assumptions: []string{"plonky2 counts leading zeros of the canonical 64-bit response"},
			MinEvents:   10000,
			Setup:       func(ctx *fw.Ctx) error { return refSelfTest(true) },
			Gen: func(ctx *fw.Ctx) []fw.Case {
				var cs []fw.Case
				const envBD = "USE_BIT_DECOMPOSITION_RANGE_CHECK=true"
				for b := 1; b <= 63; b++ {
					for _, f := range []string{"native", "plain"} {
						cs = append(cs, fw.Case{ID: fmt.Sprintf("gadget/%s/b=%d", f, b), Kind: "gadget", P: map[string]any{"face": f, "b": b}})
					}
					if !ctx.Quick || b%4 == 0 {
						cs = append(cs, fw.Case{ID: fmt.Sprintf("gadget/envbd/b=%d", b), Kind: "gadget", P: map[string]any{"face": "commit", "b": b, "env": envBD}})
					}
					if !ctx.Quick || b%16 == 0 || b%16 == 5 {
						cs = append(cs, fw.Case{ID: fmt.Sprintf("gadget/commit/b=%d", b), Kind: "gadget", P: map[string]any{"face": "commit", "b": b, "pad": true}})
					}
				}
				for _, n := range []string{"A_testdata", "B_random_CGZ"} {
					cs = append(cs, fw.Case{ID: "twochips/" + n, Kind: "twochips", P: map[string]any{"inst": n}})
				}
				nw := 12
				if !ctx.Quick {
					nw = 200
				}
				for _, n := range instNames(ctx.Quick) {
					for i := 0; i < nw; i++ {
						cs = append(cs, fw.Case{ID: fmt.Sprintf("witness/%s/%d", n, i), Kind: "witness", P: map[string]any{"inst": n, "i": i}})
					}
				}
				return cs
			},
			Exec: func(ctx *fw.Ctx, c fw.Case) fw.Outcome {
				var o fw.Outcome
				r := ctx.Rand(c.ID)
				switch c.Kind {
				case "gadget":
					b := c.Int("b")
					face := faceByName(c.Str("face"))
					pad := c.Bool("pad")
					lim := uint64(1) << uint(64-b)
					vals := []uint64{lim - 1, lim, lim + 1, P - 1, 0, 1, lim / 2, randGL(r), randGL(r) % lim, r.Uint64() % P}
					accN, rejN := 0, 0
					for _, v := range vals {
						if v >= P {
							continue
						}
						def := func(api frontend.API) {
							cd := types.CommonCircuitData{}
							fc := fri.NewChip(api, &cd, &cd.FriParams)
							fc.VerifAssertLeadingZeros(gl.NewVariable(v), types.FriConfig{ProofOfWorkBits: uint64(b)})
						}
						var res engine.Result
						if pad {
							res = harnRunCommitPadded(def, 70000)
						} else {
							res = harnRunOpt(engine.Options{Face: face}, func(api frontend.API) error { def(api); return nil })
						}
						o.Events += events(res)
						if io, bad := inconclusiveIf(res); bad {
							return io
						}
						if pad && (64-b)%16 != 0 {
							if res.Verdict != engine.Refuse {
								return fw.Violate("unaligned_pow_width_not_refused", fmt.Sprintf("b=%d under the commit checker: %s", b, resStr(res)))
							}
							o.Inc("unaligned_refused")
							o.Sample = map[string]any{"b": b, "refused": trunc(res.Msg, 60)}
							return o
						}
						want := v < lim
						acc := res.Verdict == engine.Accept
						if !acc && !want && !pad {
							// existential over hint outputs: a forged bit decomposition (non-boolean first digit)
							r2 := harnRunOpt(engine.Options{Face: face, Policy: bitsPolicy{bu(v)}}, func(api frontend.API) error { def(api); return nil })
							o.Events += events(r2)
							if r2.Verdict == engine.Accept {
								acc = true
							}
						}
						cfg := c.Str("face")
						if c.Str("env") != "" {
							cfg = "env_bitdecomp"
						}
						if acc && !want {
							return fw.Violate("pow_accepts_too_few_leading_zeros:"+cfg, fmt.Sprintf("b=%d response=%d (>= 2^%d) accepted", b, v, 64-b))
						}
						if !acc && want {
							return fw.Violate("pow_rejects_valid_response:"+cfg, fmt.Sprintf("b=%d response=%d: %s", b, v, resStr(res)))
						}
						if want {
							accN++
						} else {
							rejN++
						}
					}
					o.Add("responses_accepted", accN)
					o.Add("responses_rejected", rejN)
					o.Trivial = accN == 0 || rejN == 0
					o.Sample = map[string]any{"b": b, "accepted": accN, "rejected": rejN}
				case "twochips":
					// two verifier chips in one circuit, the second configured with a difficulty the proof
					// does not meet: the second verification must use ITS configuration and reject
					in := getInst(c.Str("inst")).Restrict(1)
					p, _ := toRefProof(&in.PWI)
					rch, _ := ref.GetChallenges(p, toRefVD(&in.VD), refCommon(in))
					lz := 0
					for ref.PowOK(rch.PowResponse, lz+1) {
						lz++
					}
					strict := in.Clone()
					strict.Common.Config.FriConfig.ProofOfWorkBits = uint64(lz + 1)
					strict.Common.FriParams.Config.ProofOfWorkBits = uint64(lz + 1)
					for _, order := range []string{"lenient_first", "strict_only"} {
						res := harnRunOpt(engine.Options{Face: engine.Native}, func(api frontend.API) error {
							if order == "lenient_first" {
								a := in.Clone()
								verifier.NewVerifierChip(api, a.Common).Verify(a.PWI.Proof, a.PWI.PublicInputs, a.VD)
							}
							b := strict.Clone()
							verifier.NewVerifierChip(api, b.Common).Verify(b.PWI.Proof, b.PWI.PublicInputs, b.VD)
							return nil
						})
						o.Events += events(res)
						if res.Verdict == engine.Accept {
							return fw.Violate("pow_difficulty_of_another_chip_used", fmt.Sprintf("%s (%s): the proof's response has %d leading zeros, the second chip is configured for %d and still accepted", c.ID, order, lz, lz+1))
						}
					}
					// the description carries the FRI configuration twice; plonky2 takes the grinding
					// requirement from fri_params.config: raising only that copy must be enough to refuse
					{
						onlyParams := in.Clone()
						onlyParams.Common.FriParams.Config.ProofOfWorkBits = uint64(lz + 1)
						res := runVerifier(onlyParams, engine.Options{Face: engine.Native})
						o.Events += events(res)
						if res.Verdict == engine.Accept {
							return fw.Violate("pow_difficulty_read_from_the_wrong_configuration_copy", fmt.Sprintf("%s: response has %d leading zeros, fri_params.config.proof_of_work_bits = %d (config.fri_config unchanged) and the proof is accepted", c.ID, lz, lz+1))
						}
						o.Inc("fri_params_copy_decides_difficulty")
						// the grinding requirement does not depend on the other security parameters
						for _, sbits := range []uint64{0, 1, 84, 200} {
							v := strict.Clone()
							v.Common.Config.SecurityBits = sbits
							res := runVerifier(v, engine.Options{Face: engine.Native})
							o.Events += events(res)
							if res.Verdict == engine.Accept {
								return fw.Violate("pow_check_switched_off_by_other_parameter", fmt.Sprintf("%s: security_bits = %d, response has %d leading zeros, %d required: accepted", c.ID, sbits, lz, lz+1))
							}
						}
						o.Inc("security_bits_do_not_switch_the_check_off")
					}
					o.Inc("second_chip_uses_its_own_difficulty")
					o.Sample = map[string]any{"response_leading_zeros": lz, "second_chip_pow_bits": lz + 1}
				case "witness":
					in := getInst(c.Str("inst")).Clone()
					w := randGL(r)
					if c.Int("i") < 4 {
						w = []uint64{0, 1, P - 1, 1 << 32}[c.Int("i")]
					}
					if leafBig(in.PWI.Proof.OpeningProof.PowWitness.Limb).Uint64() == w {
						return fw.Outcome{Trivial: true}
					}
					in.PWI.Proof.OpeningProof.PowWitness = gl.NewVariable(w)
					chs, res0 := circuitChallenges((*instT)(in), engine.Native)
					o.Events += events(res0)
					if !res0.AcceptedHonestly() {
						return fw.Violate("get_challenges_failed", resStr(res0))
					}
					p, _ := toRefProof(&in.PWI)
					rch, _ := ref.GetChallenges(p, toRefVD(&in.VD), refCommon(in))
					powIdx := 14
					if chs[powIdx] != rch.PowResponse {
						return fw.Violate("pow_response_not_derived_from_supplied_witness", fmt.Sprintf("witness %d: circuit response %d, reference %d", w, chs[powIdx], rch.PowResponse))
					}
					res := runVerifier(in, engine.Options{Face: engine.Native})
					o.Events += events(res)
					refErr := refVerifyInst(in)
					if res.Verdict == engine.Accept && refErr != nil {
						return fw.Violate("accepts_substituted_pow_witness", fmt.Sprintf("witness %d response %d: reference rejects (%v)", w, rch.PowResponse, refErr))
					}
					if ref.PowOK(rch.PowResponse, 16) {
						o.Inc("witnesses_with_valid_pow")
					} else {
						o.Inc("witnesses_with_invalid_pow")
						if res.Kind != "rangecheck" && res.Kind != "assert_eq" && res.Kind != "tobinary" && res.Kind != "assert_bool" {
							o.Inc("other_reject_kind_" + res.Kind)
						}
					}
					o.Sample = map[string]any{"witness": w, "response": rch.PowResponse, "verdict": resStr(res)}
				}
				return o
			},
		}
	})
}
