package props

import (
	"fmt"
	"math/big"

	"github.com/consensys/gnark-crypto/ecc"
	"github.com/consensys/gnark-crypto/ecc/bn254/fr"
	"github.com/consensys/gnark/constraint"
	"github.com/consensys/gnark/frontend"
	"github.com/consensys/gnark/frontend/cs/r1cs"
	"github.com/consensys/gnark/frontend/cs/scs"
	gl "github.com/wormhole-foundation/example-near-light-client/goldilocks"
	"github.com/wormhole-foundation/example-near-light-client/verifier"

	"verifharness/circ"
	"verifharness/engine"
	"verifharness/fw"
	"verifharness/gadget"
	"verifharness/harn"
	"verifharness/inst"
)

// C03 — on-chain public inputs bind exactly the plonky2 public inputs.
// C04 — the wrapper accepts proofs of one fixed inner circuit only.

// packLimbs computes the four public values from 16 limb integers (no truncation).
func packLimbs(limbs []*big.Int) [4]*big.Int {
	var out [4]*big.Int
	for j := 0; j < 4; j++ {
		v := new(big.Int)
		for i := 0; i < 4; i++ {
			v.Lsh(v, 32)
			v.Add(v, limbs[j*4+i])
		}
		out[j] = new(big.Int).Mod(v, bigR)
	}
	return out
}

func c03Build(in *inst.Instance, limbs []*big.Int, V [4]*big.Int) *verifier.CircuitFixed {
	c := in.Clone().CircuitFixed()
	for i := range limbs {
		c.ProofWithPis.PublicInputs[i] = gl.NewVariable(limbs[i])
	}
	for j := 0; j < 4; j++ {
		c.PublicInputs[j] = frontend.Variable(V[j])
	}
	return c
}

func init() {
	register("C03", func() *fw.Prop {
		return &fw.Prop{
			ID:    "C03",
			Level: "exploration",
			Rule:  "cases = (circuit-A proof restricted to k=1 (plus the full instance), forged limb assignment, public values) executed through CircuitFixed.Define: limb_i + k*p for every limb index and k in {1, 2, 2^20, largest k the 144-bit reduction admits}, pairs / all limbs shifted, borrow-shifted limbs with the same packed value, random limbs in [0,2^64), random / off-by-one public values, public values reduced modulo 2^128; the public values are recomputed from the forged limbs unless stated. Oracle: ACCEPT iff the limbs are the true public inputs (all < 2^32) and the values are their packing; every accepted value must be < 2^128. A shadow-bound run additionally requires the packing equality to be wrap-free under the enforced limb bounds. Non-trivial = limbs or values differ from the honest ones (the honest control counts once); distinct by case id. Also: a second limb set for unchanged public values, low-word packings, two public values of one hash shifted by (a, -a*2^128), and the wrapper compiled with a real builder (honest assignment solvable, nine forged ones not).",
			Assumptions: []string{
				"the Solidity contract (truncation of each public value to 128 bits in secondHash) cannot be executed here; it is the reason values >= 2^128 matter",
			},
			MinEvents: 100000,
			Setup: func(ctx *fw.Ctx) error {
				engine.SetRealHints(false) // large must-reject sweep: native fast path for honest hints
				return nil
			},
			Gen: func(ctx *fw.Ctx) []fw.Case {
				var cs []fw.Case
				names := []string{"A_testdata", "A_testjson"}
				for _, n := range names {
					cs = append(cs, fw.Case{ID: n + "/honest/k=1", Kind: "honest", P: map[string]any{"inst": n, "k": 1}})
					for i := 0; i < 16; i++ {
						for _, k := range []string{"1", "2", "2^20", "max"} {
							if ctx.Quick && n == "A_testjson" && (i+len(k))%4 != 0 {
								continue
							}
							cs = append(cs, fw.Case{ID: fmt.Sprintf("%s/limb%d+%s*p", n, i, k), Kind: "kp", P: map[string]any{"inst": n, "i": i, "kk": k, "k": 1}})
						}
						cs = append(cs, fw.Case{ID: fmt.Sprintf("%s/borrow%d", n, i), Kind: "borrow", P: map[string]any{"inst": n, "i": i, "k": 1}})
						cs = append(cs, fw.Case{ID: fmt.Sprintf("%s/samev/limb%d", n, i), Kind: "samev", P: map[string]any{"inst": n, "i": i, "k": 1}})
						cs = append(cs, fw.Case{ID: fmt.Sprintf("%s/lowword/limb%d", n, i), Kind: "lowword", P: map[string]any{"inst": n, "i": i, "k": 1}})
						if i < 8 {
							cs = append(cs, fw.Case{ID: fmt.Sprintf("%s/pairshift/%d", n, i), Kind: "pairshift", P: map[string]any{"inst": n, "i": i, "k": 1}})
						}
						cs = append(cs, fw.Case{ID: fmt.Sprintf("%s/trunc128/limb%d", n, i), Kind: "trunc", P: map[string]any{"inst": n, "i": i, "k": 1}})
					}
					cs = append(cs, fw.Case{ID: n + "/all+p", Kind: "allp", P: map[string]any{"inst": n, "k": 1}})
					for j := 0; j < 4; j++ {
						for _, w := range []string{"plus1", "rand", "plus2^128"} {
							cs = append(cs, fw.Case{ID: fmt.Sprintf("%s/V%d/%s", n, j, w), Kind: "value", P: map[string]any{"inst": n, "j": j, "w": w, "k": 1}})
						}
					}
					nr := 8
					if !ctx.Quick {
						nr = 120
					}
					for i := 0; i < nr; i++ {
						cs = append(cs, fw.Case{ID: fmt.Sprintf("%s/randlimbs/%d", n, i), Kind: "randlimbs", P: map[string]any{"inst": n, "i": i, "k": 1}})
						cs = append(cs, fw.Case{ID: fmt.Sprintf("%s/pairs/%d", n, i), Kind: "pairs", P: map[string]any{"inst": n, "i": i, "k": 1}})
					}
				}
				cs = append(cs, fw.Case{ID: "A_testdata/honest/k=28", Kind: "honest", P: map[string]any{"inst": "A_testdata", "k": 28}})
				cs = append(cs, fw.Case{ID: "A_testdata/limb0+1*p/k=28/plain", Kind: "kp", P: map[string]any{"inst": "A_testdata", "i": 0, "kk": "1", "k": 28, "face": "plain"}})
				for i := 0; i < 16; i++ {
					// every limb index under the commit checker (checks are collected and issued at the end)
					cs = append(cs, fw.Case{ID: fmt.Sprintf("A_testdata/limb%d+1*p/k=1/commit", i), Kind: "kp", P: map[string]any{"inst": "A_testdata", "i": i, "kk": "1", "k": 1, "face": "commit"}})
					if i%5 == 0 {
						cs = append(cs, fw.Case{ID: fmt.Sprintf("A_testdata/limb%d+1*p/k=1/plain", i), Kind: "kp", P: map[string]any{"inst": "A_testdata", "i": i, "kk": "1", "k": 1, "face": "plain"}})
					}
				}
				cs = append(cs, fw.Case{ID: "A_testdata/shadow/k=1", Kind: "shadow", P: map[string]any{"inst": "A_testdata", "k": 1}})
				cs = append(cs, fw.Case{ID: "A_testdata/compiled/r1cs/k=1", Kind: "compiled", P: map[string]any{"inst": "A_testdata", "k": 1, "sys": "r1cs"}})
				if !ctx.Quick {
					cs = append(cs, fw.Case{ID: "A_testdata/compiled/scs/k=1", Kind: "compiled", P: map[string]any{"inst": "A_testdata", "k": 1, "sys": "scs"}})
				}
				return cs
			},
			Exec: func(ctx *fw.Ctx, c fw.Case) fw.Outcome {
				var o fw.Outcome
				in := getInst(c.Str("inst"))
				if k := c.Int("k"); k < in.K {
					in = in.Restrict(k)
				}
				truth := make([]*big.Int, 16)
				for i, v := range in.PIs {
					truth[i] = bu(v)
				}
				limbs := make([]*big.Int, 16)
				for i := range truth {
					limbs[i] = new(big.Int).Set(truth[i])
				}
				r := ctx.Rand(c.ID)
				var V [4]*big.Int
				vSet := false
				switch c.Kind {
				case "honest":
				case "kp":
					i := c.Int("i")
					limbs[i] = c17Offset(truth[i], map[string]string{"1": "1", "2": "2", "2^20": "2^20", "max": "max144"}[c.Str("kk")])
				case "borrow":
					i := c.Int("i")
					if i%4 == 3 {
						i--
					}
					// same packed value, different limbs: (l_i - 1, l_{i+1} + 2^32)
					limbs[i] = new(big.Int).Mod(new(big.Int).Sub(limbs[i], big.NewInt(1)), bigR)
					limbs[i+1] = new(big.Int).Add(limbs[i+1], pow2(32))
				case "trunc":
					// forged limb, but the public value is given reduced modulo 2^128 (what the contract keeps)
					i := c.Int("i")
					limbs[i] = new(big.Int).Add(truth[i], bigP)
					V = packLimbs(limbs)
					for j := range V {
						V[j] = new(big.Int).Mod(V[j], pow2(128))
					}
					vSet = true
				case "lowword":
					// limb_i + p with the public values packing only the LOW 32-bit word of every limb
					// (what a truncating packing would compute)
					i := c.Int("i")
					limbs[i] = new(big.Int).Add(truth[i], bigP)
					low := make([]*big.Int, 16)
					for j := range low {
						low[j] = new(big.Int).And(limbs[j], big.NewInt(0xFFFFFFFF))
					}
					V = packLimbs(low)
					vSet = true
				case "pairshift":
					// two public values of the same 256-bit hash moved together by (a, -a*2^128 mod r):
					// V[2j]*2^128 + V[2j+1] is unchanged
					V = packLimbs(truth)
					j := (c.Int("i") % 2) * 2
					a := big.NewInt(int64(1 + r.Intn(1000)))
					if c.Int("i") >= 4 {
						a = randBig(r, pow2(120))
					}
					V[j] = new(big.Int).Add(V[j], a)
					V[j+1] = new(big.Int).Mod(new(big.Int).Sub(V[j+1], new(big.Int).Lsh(a, 128)), bigR)
					vSet = true
				case "samev":
					// a second limb set for the SAME public values: limb_i (and sometimes a second
					// limb) shifted by multiples of p, the public values left as the honest packing
					i := c.Int("i")
					limbs[i] = new(big.Int).Add(truth[i], new(big.Int).Mul(bigP, big.NewInt(int64(1+r.Intn(3)))))
					if r.Intn(2) == 0 {
						j := r.Intn(16)
						limbs[j] = new(big.Int).Add(truth[j], bigP)
					}
					V = packLimbs(truth)
					vSet = true
				case "allp":
					for i := range limbs {
						limbs[i] = new(big.Int).Add(truth[i], bigP)
					}
				case "value":
					V = packLimbs(limbs)
					j := c.Int("j")
					switch c.Str("w") {
					case "plus1":
						V[j] = new(big.Int).Add(V[j], big.NewInt(1))
					case "rand":
						V[j] = randBig(r, pow2(128))
					case "plus2^128":
						V[j] = new(big.Int).Add(V[j], pow2(128))
					}
					vSet = true
				case "randlimbs":
					n := 1 + r.Intn(3)
					for t := 0; t < n; t++ {
						limbs[r.Intn(16)] = bu(r.Uint64())
					}
				case "pairs":
					a, b := r.Intn(16), r.Intn(16)
					limbs[a] = new(big.Int).Add(truth[a], new(big.Int).Mul(bigP, big.NewInt(int64(1+r.Intn(1000)))))
					limbs[b] = new(big.Int).Add(truth[b], new(big.Int).Mul(bigP, big.NewInt(int64(1+r.Intn(1000)))))
				case "compiled":
					// the wrapper compiled with a real builder (commitment-based range checks):
					// the honest assignment is solvable, forged limbs / values are not
					var nb frontend.NewBuilder = r1cs.NewBuilder
					if c.Str("sys") == "scs" {
						nb = scs.NewBuilder
					}
					var ccs constraint.ConstraintSystem
					var cerr error
					harn.Protect(func() {
						ccs, cerr = frontend.Compile(ecc.BN254.ScalarField(), nb, c03Build(in, truth, packLimbs(truth)))
					})
					if cerr != nil {
						return fw.Violate("compile_fails_on_valid_template:"+c.Str("sys"), trunc(cerr.Error(), 200))
					}
					try := func(l []*big.Int, v [4]*big.Int) error {
						w, err := frontend.NewWitness(c03Build(in, l, v), ecc.BN254.ScalarField())
						if err != nil {
							return err
						}
						return ccs.IsSolved(w, gadget.SolveOpts(ccs)...)
					}
					if err := try(truth, packLimbs(truth)); err != nil {
						return fw.Violate("compiled_system_rejects_honest_public_values:"+c.Str("sys"), trunc(err.Error(), 200))
					}
					// what goes on chain: the PUBLIC part of the witness must be exactly the four packed values
					{
						w, err := frontend.NewWitness(c03Build(in, truth, packLimbs(truth)), ecc.BN254.ScalarField())
						if err != nil {
							return fw.Inconcl("witness: " + err.Error())
						}
						pw, err := w.Public()
						if err != nil {
							return fw.Inconcl("public witness: " + err.Error())
						}
						vec, ok := pw.Vector().(fr.Vector)
						tv := packLimbs(truth)
						if !ok || len(vec) != 4 {
							return fw.Violate("public_values_not_public", fmt.Sprintf("the public part of the wrapper's witness has %d entries, expected the 4 packed values", len(vec)))
						}
						for j := range vec {
							var b big.Int
							vec[j].BigInt(&b)
							if b.Cmp(tv[j]) != 0 {
								return fw.Violate("public_values_not_public", fmt.Sprintf("public entry %d is %s, expected %s", j, b.String(), tv[j]))
							}
						}
						if n := ccs.GetNbPublicVariables(); n != 4 && n != 5 {
							return fw.Violate("public_values_not_public", fmt.Sprintf("compiled system has %d public variables", n))
						}
						o.Inc("public_partition_is_the_four_packed_values")
					}
					o.Inc("compiled_" + c.Str("sys") + "_honest_solved")
					cp := func() []*big.Int {
						l := make([]*big.Int, 16)
						for i := range l {
							l[i] = new(big.Int).Set(truth[i])
						}
						return l
					}
					type forged struct {
						name string
						l    []*big.Int
						v    [4]*big.Int
					}
					var fs []forged
					for _, i := range []int{0, 3, r.Intn(16), 15} {
						l := cp()
						l[i] = new(big.Int).Add(l[i], bigP)
						fs = append(fs, forged{fmt.Sprintf("limb%d+p", i), l, packLimbs(l)})
					}
					{
						l := cp()
						for i := range l {
							l[i] = new(big.Int).Add(l[i], bigP)
						}
						fs = append(fs, forged{"all+p", l, packLimbs(l)})
						l2 := cp()
						l2[4] = new(big.Int).Mod(new(big.Int).Sub(l2[4], big.NewInt(1)), bigR)
						l2[5] = new(big.Int).Add(l2[5], pow2(32))
						fs = append(fs, forged{"borrow", l2, packLimbs(l2)})
						v := packLimbs(truth)
						v[1] = new(big.Int).Add(v[1], big.NewInt(1))
						fs = append(fs, forged{"V1+1", cp(), v})
						v2 := packLimbs(truth)
						v2[2] = new(big.Int).Add(v2[2], pow2(128))
						fs = append(fs, forged{"V2+2^128", cp(), v2})
						v3 := packLimbs(truth)
						v3[0] = new(big.Int).Add(v3[0], new(big.Int).Lsh(big.NewInt(0x2f3), 240))
						fs = append(fs, forged{"V0+k*2^240", cp(), v3})
					}
					for _, f := range fs {
						if err := try(f.l, f.v); err == nil {
							return fw.Violate("compiled_system_accepts_forged_public_values:"+c.Str("sys"), "forged assignment "+f.name+" is solvable")
						}
						o.Inc("compiled_" + c.Str("sys") + "_forged_rejected")
					}
					o.Events += ccs.GetNbConstraints()
					o.Sample = map[string]any{"system": c.Str("sys"), "constraints": ccs.GetNbConstraints(), "forged": len(fs)}
					return o
				case "shadow":
					rep, results, err := shadowFixpoint(engine.Native, func() frontend.Circuit { return in.Clone().CircuitFixed() }, 10)
					for _, rr := range results {
						o.Events += events(rr)
					}
					if err != nil {
						return fw.Inconcl("shadow monitor: " + err.Error())
					}
					n := rep.EqSites["verifier.(*CircuitFixed).Define"]
					if n != 4 {
						return fw.Inconcl(fmt.Sprintf("the packing equality was observed %d times, expected 4", n))
					}
					for _, f := range rep.SortedFindings() {
						if f.Site == "verifier.(*CircuitFixed).Define" {
							return fw.Violate("packing_not_wrap_free", f.Detail)
						}
					}
					o.Inc("packing_equalities_wrap_free")
					o.Sample = map[string]any{"packing_equalities_judged": n}
					return o
				}
				if !vSet {
					V = packLimbs(limbs)
				}
				honest := true
				for i := range limbs {
					if limbs[i].Cmp(truth[i]) != 0 {
						honest = false
					}
				}
				tv := packLimbs(truth)
				for j := range V {
					if V[j].Cmp(tv[j]) != 0 {
						honest = false
					}
				}
				face := engine.Native
				if f := c.Str("face"); f != "" {
					face = faceByName(f)
				}
				res := harnRunOpt(engine.Options{Face: face}, c03Build(in, limbs, V).Define)
				o.Events += events(res)
				if !honest && res.Verdict == engine.Reject && face == engine.Plain && c.Kind == "kp" {
					// existential over hint outputs: forged bit decomposition of the oversized limb
					r2 := harnRunOpt(engine.Options{Face: face, Policy: bitsPolicy{limbs[c.Int("i")]}}, c03Build(in, limbs, V).Define)
					o.Events += events(r2)
					if r2.Verdict == engine.Accept {
						res = r2
					}
				}
				if io, bad := inconclusiveIf(res); bad {
					return io
				}
				if honest {
					if !res.AcceptedHonestly() {
						return fw.Violate("rejects_honest_public_values", fmt.Sprintf("case %s: %s", c.ID, resStr(res)))
					}
					o.Inc("honest_accepted")
					o.Trivial = c.Kind != "honest"
					return o
				}
				if res.Verdict == engine.Accept {
					big128 := false
					for j := range V {
						if V[j].BitLen() > 128 {
							big128 = true
						}
					}
					key := "accepts_forged_limbs:" + c.Kind
					return fw.Violate(key, fmt.Sprintf("case %s: CircuitFixed ACCEPTED limbs different from the inner public inputs (value >= 2^128: %v), e.g. limb bits %d", c.ID, big128, limbs[c.Int("i")%16].BitLen()))
				}
				o.Inc("rejected_" + c.Kind)
				o.Inc("site=" + res.Kind + "@" + shortSite(res.Site))
				o.Sample = map[string]any{"kind": c.Kind, "verdict": resStr(res)}
				return o
			},
		}
	})

	register("C04", func() *fw.Prop {
		return &fw.Prop{
			ID:    "C04",
			Level: "exploration",
			Rule:  "cases = (wrapper in {VerifierCircuit, CircuitFixed} built from a template (real proof + its verifier key), proving-time assignment whose verifier key differs from the template's): each of the 17 key elements perturbed (+1, random, zero) — the harness computes from the recorded query indices which cap entries no query round selects and always includes them —, the other inner circuit's complete key, its digest only, its cap only, a random key; executed like gnark's IsSolved(template, assignment): Define runs on the template's constants with the assignment's leaves. Verdict must not be ACCEPT unless the differing key elements are public values of the wrapper (none are). Non-trivial = the assignment key differs from the template key; distinct by case id. Also: -1, structured steps (2^56 .. 2^224, multiples of the Goldilocks prime) on every key element and two selected cap entries exchanged.",
			Assumptions: []string{
				"visibility of the key is read from the struct tags: VerifierData carries no `gnark:\",public\"` tag in either wrapper",
			},
			MinEvents: 100000,
			Setup: func(ctx *fw.Ctx) error {
				engine.SetRealHints(false) // large must-reject sweep: native fast path for honest hints
				return nil
			},
			Gen: func(ctx *fw.Ctx) []fw.Case {
				var cs []fw.Case
				for _, n := range instNames(ctx.Quick) {
					wrappers := []string{"verifier"}
					if n[0] == 'A' {
						wrappers = append(wrappers, "fixed")
					}
					for _, w := range wrappers {
						for e := 0; e < 17; e++ {
							for _, p := range []string{"plus1", "minus1", "rand", "zero", "structured"} {
								cs = append(cs, fw.Case{ID: fmt.Sprintf("%s/%s/key%d/%s", n, w, e, p), Kind: "elem", P: map[string]any{"inst": n, "wrapper": w, "e": e, "pert": p}})
							}
						}
						other := "B_random_CGZ"
						if n[0] == 'B' {
							other = "A_testdata"
						}
						for _, what := range []string{"otherkey", "otherdigest", "othercap", "randomkey", "unselected_all"} {
							cs = append(cs, fw.Case{ID: fmt.Sprintf("%s/%s/%s", n, w, what), Kind: what, P: map[string]any{"inst": n, "wrapper": w, "other": other}})
						}
						for k := 0; k < 4; k++ {
							cs = append(cs, fw.Case{ID: fmt.Sprintf("%s/%s/swapcap/%d", n, w, k), Kind: "swapcap", P: map[string]any{"inst": n, "wrapper": w, "other": other}})
						}
					}
				}
				return cs
			},
			Exec: func(ctx *fw.Ctx, c fw.Case) fw.Outcome {
				var o fw.Outcome
				in := getInst(c.Str("inst"))
				full := in
				if ctx.Quick || c.Str("wrapper") == "fixed" || true {
					// the full instance is needed: which cap entries are unselected depends on all 28 rounds
				}
				rc, err := getRoundCtx(in.Name)
				if err != nil {
					return fw.Inconcl(err.Error())
				}
				selected := map[int]bool{}
				lde := uint(in.Common.FriParams.DegreeBits + in.Common.FriParams.Config.RateBits)
				for _, raw := range rc.refCh.QueryIndicesRaw {
					idx := raw % (1 << lde)
					selected[int(idx>>(lde-4))] = true
				}
				a := full.Clone()
				ls := circ.Leaves(&a.VD)
				r := ctx.Rand(c.ID)
				desc := ""
				switch c.Kind {
				case "elem":
					e := c.Int("e")
					l := ls[e]
					old := l.Big()
					var n *big.Int
					switch c.Str("pert") {
					case "plus1":
						n = new(big.Int).Add(old, big.NewInt(1))
					case "rand":
						n = randBig(r, bigR)
					case "zero":
						n = big.NewInt(0)
					case "minus1":
						n = new(big.Int).Sub(old, big.NewInt(1))
					case "structured":
						// a step a weakened comparison / absorption could be blind to
						d := []*big.Int{pow2(56), pow2(64), pow2(112), pow2(128), pow2(168), pow2(192), pow2(224), bigP, new(big.Int).Lsh(bigP, 224), new(big.Int).Lsh(bigP, 56)}[r.Intn(10)]
						if r.Intn(2) == 0 {
							n = new(big.Int).Add(old, d)
						} else {
							n = new(big.Int).Sub(old, d)
						}
					}
					n.Mod(n, bigR)
					if n.Cmp(old) == 0 {
						return fw.Outcome{Trivial: true}
					}
					l.Set(n)
					desc = l.Path
					if e < 16 {
						if selected[e] {
							desc += " (selected by a query)"
						} else {
							desc += " (NOT selected by any of the 28 queries)"
							o.Inc("unselected_cap_entries_tried")
						}
					}
				case "swapcap":
					// the genuine entries in exchanged positions (both selected by queries)
					var sel []int
					for e := 0; e < 16; e++ {
						if selected[e] {
							sel = append(sel, e)
						}
					}
					x := sel[r.Intn(len(sel))]
					y := sel[r.Intn(len(sel))]
					for y == x {
						y = sel[r.Intn(len(sel))]
					}
					vx, vy := ls[x].Big(), ls[y].Big()
					ls[x].Set(vy)
					ls[y].Set(vx)
					desc = fmt.Sprintf("cap entries %d and %d exchanged (both selected by queries)", x, y)
				case "otherkey":
					a.VD = *circ.DeepCopy(&getInst(c.Str("other")).VD)
				case "otherdigest":
					a.VD.CircuitDigest = getInst(c.Str("other")).VD.CircuitDigest
				case "othercap":
					a.VD.ConstantSigmasCap = circ.DeepCopy(&getInst(c.Str("other")).VD).ConstantSigmasCap
				case "randomkey":
					for _, l := range ls {
						l.Set(randBig(r, bigR))
					}
				case "unselected_all":
					n := 0
					for e := 0; e < 16; e++ {
						if !selected[e] {
							ls[e].Set(randBig(r, bigR))
							n++
						}
					}
					if n == 0 {
						return fw.Outcome{Trivial: true}
					}
					desc = fmt.Sprintf("%d unselected cap entries randomised", n)
				}
				// run Define on the template's constants with the assignment's leaves
				var def func(api frontend.API) error
				if c.Str("wrapper") == "fixed" {
					t := full.Clone().CircuitFixed()
					t.VerifierData = a.VD
					def = t.Define
				} else {
					t := full.Clone().VerifierCircuit()
					t.VerifierData = a.VD
					def = t.Define
				}
				res := harnRunOpt(engine.Options{Face: engine.Native}, def)
				o.Events += events(res)
				if io, bad := inconclusiveIf(res); bad {
					return io
				}
				if res.Verdict == engine.Accept {
					key := "accepts_other_key:" + c.Str("wrapper") + ":" + c.Kind
					if c.Kind == "elem" {
						if e := c.Int("e"); e < 16 && !selected[e] {
							key = "accepts_other_key:" + c.Str("wrapper") + ":unselected_cap_entry"
						} else if e < 16 {
							key = "accepts_other_key:" + c.Str("wrapper") + ":selected_cap_entry"
						} else {
							key = "accepts_other_key:" + c.Str("wrapper") + ":digest"
						}
					}
					return fw.Violate(key, fmt.Sprintf("case %s: wrapper built for key K accepted an assignment with a different key (%s)", c.ID, desc))
				}
				o.Inc("rejected_" + c.Kind)
				o.Inc("site=" + res.Kind + "@" + shortSite(res.Site))
				o.Sample = map[string]any{"change": desc, "verdict": resStr(res), "selected_cap_entries": len(selected)}
				return o
			},
		}
	})
}
