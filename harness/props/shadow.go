package props

import (
	"fmt"
	"sort"

	"github.com/consensys/gnark/frontend"

	"verifharness/circ"
	"verifharness/engine"
	"verifharness/inst"
)

// shadowFixpoint runs the circuit repeatedly under the shadow monitor, feeding the leaf
// bounds justified in one pass to the next, until no new bound is learned; the last pass
// judges the integer equalities and the hint outputs. mk must build a fresh circuit each
// time (leaves are bound in place).
func shadowFixpoint(face engine.Face, mk func() frontend.Circuit, maxPasses int) (*engine.ShadowReport, []engine.Result, error) {
	known := map[int64]engine.U256{}
	var results []engine.Result
	for pass := 0; pass < maxPasses; pass++ {
		cfg := &engine.ShadowCfg{Known: known}
		c := mk()
		circ.BindInputs(c, cfg)
		res := harnRunOpt(engine.Options{Face: face, Shadow: cfg}, c.Define)
		results = append(results, res)
		if !res.AcceptedHonestly() {
			return nil, results, fmt.Errorf("shadow pass %d: %s", pass, res)
		}
		if cfg.Report.Changed == 0 {
			// fixpoint reached: judging pass
			cfg2 := &engine.ShadowCfg{Known: known, Final: true}
			c2 := mk()
			circ.BindInputs(c2, cfg2)
			res2 := harnRunOpt(engine.Options{Face: face, Shadow: cfg2}, c2.Define)
			results = append(results, res2)
			if res2.Verdict != engine.Accept {
				return nil, results, fmt.Errorf("shadow judging pass: %s", res2)
			}
			return cfg2.Report, results, nil
		}
		for k, v := range cfg.Learned {
			if old, ok := known[k]; !ok || v.Cmp(old) < 0 {
				known[k] = v
			}
		}
	}
	return nil, results, fmt.Errorf("no fixpoint after %d passes", maxPasses)
}

func verifierCircuitMaker(in *inst.Instance) func() frontend.Circuit {
	return func() frontend.Circuit { return in.Clone().VerifierCircuit() }
}

type siteRow struct {
	Site, Hint              string
	Count                   uint64
	MaxObs, Allowed, Honest []int
}

func siteRows(r *engine.ShadowReport) []siteRow {
	var rows []siteRow
	for _, s := range r.Sites {
		rows = append(rows, siteRow{s.Site, s.Hint, s.Count, s.MaxObsBits, s.AllowedBits, s.HonBits})
	}
	sort.Slice(rows, func(i, j int) bool { return rows[i].Site+rows[i].Hint < rows[j].Site+rows[j].Hint })
	return rows
}

// ShadowFixpoint is exported for the smoke tool.
var ShadowFixpoint = shadowFixpoint
