package props

import (
	"fmt"
	"math/big"

	"github.com/wormhole-foundation/example-near-light-client/types"
	"github.com/wormhole-foundation/example-near-light-client/variables"

	"verifharness/circ"
	"verifharness/engine"
	"verifharness/fw"
)

// C17, file level: the only non-canonical encodings a proof document can carry are
// residue + p for residues below 2^32 - 1 (the document holds 64-bit integers). Such a value
// is written into the raw document structure, the repository's own deserialiser builds the
// assignment from it, and the monitor observes (a) the value that arrives at the circuit —
// it must be the written one: a reader that normalises it has made two encodings of one
// proof indistinguishable before any range check runs — and (b) the verdict of the verifier
// on that assignment, which must not be ACCEPT.

type c17RawSite struct {
	name string
	ptr  func(r *types.ProofWithPublicInputsRaw) *uint64
}

func lastOf[T any](s []T) *T { return &s[len(s)-1] }

var c17RawSites = []c17RawSite{
	{"Openings.Constants/first.c0", func(r *types.ProofWithPublicInputsRaw) *uint64 { return &r.Proof.Openings.Constants[0][0] }},
	{"Openings.PlonkSigmas/first.c1", func(r *types.ProofWithPublicInputsRaw) *uint64 { return &r.Proof.Openings.PlonkSigmas[0][1] }},
	{"Openings.Wires/last.c0", func(r *types.ProofWithPublicInputsRaw) *uint64 { return &(*lastOf(r.Proof.Openings.Wires))[0] }},
	{"Openings.PlonkZs/first.c1", func(r *types.ProofWithPublicInputsRaw) *uint64 { return &r.Proof.Openings.PlonkZs[0][1] }},
	{"Openings.PlonkZsNext/last.c0", func(r *types.ProofWithPublicInputsRaw) *uint64 { return &(*lastOf(r.Proof.Openings.PlonkZsNext))[0] }},
	{"Openings.PartialProducts/last.c1", func(r *types.ProofWithPublicInputsRaw) *uint64 { return &(*lastOf(r.Proof.Openings.PartialProducts))[1] }},
	{"Openings.QuotientPolys/last.c0", func(r *types.ProofWithPublicInputsRaw) *uint64 { return &(*lastOf(r.Proof.Openings.QuotientPolys))[0] }},
	{"LeafElements/round0.oracle0.first", func(r *types.ProofWithPublicInputsRaw) *uint64 {
		return &r.Proof.OpeningProof.QueryRoundProofs[0].InitialTreesProof.EvalsProofs[0].LeafElements[0]
	}},
	{"LeafElements/lastround.lastoracle.last", func(r *types.ProofWithPublicInputsRaw) *uint64 {
		q := lastOf(r.Proof.OpeningProof.QueryRoundProofs)
		return lastOf(lastOf(q.InitialTreesProof.EvalsProofs).LeafElements)
	}},
	{"Steps.Evals/round0.step0.first.c1", func(r *types.ProofWithPublicInputsRaw) *uint64 {
		return &r.Proof.OpeningProof.QueryRoundProofs[0].Steps[0].Evals[0][1]
	}},
	{"Steps.Evals/lastround.laststep.last.c0", func(r *types.ProofWithPublicInputsRaw) *uint64 {
		q := lastOf(r.Proof.OpeningProof.QueryRoundProofs)
		return &(*lastOf(lastOf(q.Steps).Evals))[0]
	}},
	{"FinalPoly.Coeffs/first.c0", func(r *types.ProofWithPublicInputsRaw) *uint64 { return &r.Proof.OpeningProof.FinalPoly.Coeffs[0][0] }},
	{"FinalPoly.Coeffs/last.c1", func(r *types.ProofWithPublicInputsRaw) *uint64 { return &(*lastOf(r.Proof.OpeningProof.FinalPoly.Coeffs))[1] }},
	{"PowWitness", func(r *types.ProofWithPublicInputsRaw) *uint64 { return &r.Proof.OpeningProof.PowWitness }},
}

var c17RawSmall = []uint64{0, 1, 0xFFFFFFFE}

func c17RawGen(ctx *fw.Ctx, name string) []fw.Case {
	var cs []fw.Case
	for si, s := range c17RawSites {
		for ki, small := range c17RawSmall {
			if ctx.Quick && name != "A_testdata" && (si+ki)%3 != 0 {
				continue
			}
			cs = append(cs, fw.Case{ID: fmt.Sprintf("rawnc/%s/%s/small=%d", name, s.name, small), Kind: "rawnc",
				P: map[string]any{"inst": name, "site": si, "small": fmt.Sprint(small), "leafkind": "raw:" + s.name}})
		}
	}
	return cs
}

func c17RawExec(ctx *fw.Ctx, c fw.Case) (o fw.Outcome) {
	in := getInst(c.Str("inst")).Clone()
	site := c17RawSites[c.Int("site")]
	small, _ := new(big.Int).SetString(c.Str("small"), 10)
	nv := new(big.Int).Add(small, bigP)
	raw := types.ReadProofWithPublicInputs(in.Files.Proof)
	base, _ := variables.DeserializeProofWithPublicInputs(raw)
	p := site.ptr(&raw)
	old := *p
	*p = nv.Uint64()
	var edited variables.ProofWithPublicInputs
	var pis []uint64
	refused := ""
	func() {
		defer func() {
			if r := recover(); r != nil {
				refused = fmt.Sprint(r)
			}
		}()
		edited, pis = variables.DeserializeProofWithPublicInputs(raw)
	}()
	if refused != "" {
		// a reader that refuses the non-canonical document is a rejection
		o.Inc("reader_refused[" + site.name + "]")
		o.Inc("executions")
		return o
	}
	la, lb := circ.Leaves(&base.Proof), circ.Leaves(&edited.Proof)
	if len(la) != len(lb) {
		return fw.Inconcl(fmt.Sprintf("leaf counts differ after a value edit: %d vs %d", len(la), len(lb)))
	}
	var diff []int
	for i := range la {
		if la[i].Big().Cmp(lb[i].Big()) != 0 {
			diff = append(diff, i)
		}
	}
	o.Events += len(la)
	if len(diff) != 1 || lb[diff[0]].Big().Cmp(nv) != 0 {
		got := "no position differs"
		if len(diff) > 0 {
			got = fmt.Sprintf("%d positions differ, first %s = %s", len(diff), lb[diff[0]].Path, lb[diff[0]].Big())
		}
		return fw.Violate("raw_noncanonical_not_delivered:"+site.name, fmt.Sprintf("case %s: document value %d -> %s; assignment built by the repository's reader: %s (a reader that maps residue+p to the residue gives one proof two accepted documents)", c.ID, old, nv, got))
	}
	o.Inc("delivered_as_written[" + lb[diff[0]].Kind + "]")
	in.PWI, in.PIs = edited, pis
	res := runVerifier(in, engine.Options{Face: engine.Native})
	o.Events += events(res)
	if io, bad := inconclusiveIf(res); bad {
		return io
	}
	if res.Verdict == engine.Accept {
		return fw.Violate("accepts_noncanonical:raw:"+site.name, fmt.Sprintf("case %s: document value %d -> %s accepted", c.ID, old, nv))
	}
	o.Inc("site[raw:" + site.name + "]=" + res.Kind + "@" + shortSite(res.Site))
	o.Inc("executions")
	o.Inc("face_" + engine.Native.String())
	o.Sample = map[string]any{"document_value": fmt.Sprint(old), "noncanonical": nv.String(), "arrived_at": lb[diff[0]].Path}
	return o
}
