package props

import (
	"fmt"
	"math/big"
	"math/rand"
	"strings"
	"sync"

	"github.com/consensys/gnark/frontend"
	gl "github.com/wormhole-foundation/example-near-light-client/goldilocks"

	"verifharness/engine"
	"verifharness/fw"
	"verifharness/harn"
	"verifharness/inst"
	"verifharness/ref"
)

const P = ref.P

var bigP = new(big.Int).SetUint64(P)
var bigR = ref.RMod

func bu(x uint64) *big.Int { return new(big.Int).SetUint64(x) }

func pow2(n uint) *big.Int { return new(big.Int).Lsh(big.NewInt(1), n) }

// edgeGL: structured edge values of the Goldilocks field.
var edgeGL = []uint64{0, 1, 1<<32 - 1, 1 << 32, 1 << 63, P - (1 << 32), P - 1}

// randGL draws a canonical element, biased towards edges.
func randGL(r *rand.Rand) uint64 {
	switch r.Intn(10) {
	case 0:
		return edgeGL[r.Intn(len(edgeGL))]
	case 1:
		return P - 1 - uint64(r.Intn(4))
	case 2:
		return uint64(r.Intn(4))
	}
	for {
		v := r.Uint64()
		if v < P {
			return v
		}
	}
}

func randE(r *rand.Rand) ref.E { return ref.E{randGL(r), randGL(r)} }

func randBig(r *rand.Rand, max *big.Int) *big.Int {
	return new(big.Int).Rand(r, max)
}

var allFaces = []engine.Face{engine.Native, engine.Plain, engine.Commit}

func faceByName(s string) engine.Face {
	switch s {
	case "native":
		return engine.Native
	case "plain":
		return engine.Plain
	case "commit":
		return engine.Commit
	}
	panic("face " + s)
}

// refSelfTest validates the reference (KATs; and the real proofs when withProofs).
var refOnce sync.Once
var refErr error

func refSelfTest(withProofs bool) error {
	refOnce.Do(func() {
		if err := ref.SelfTest(); err != nil {
			refErr = err
			return
		}
		if withProofs {
			var fs [][3]string
			for _, f := range inst.All() {
				fs = append(fs, [3]string{f.Proof, f.VD, f.Common})
			}
			refErr = ref.SelfTestProofs(fs, 0)
		}
	})
	return refErr
}

func resStr(r engine.Result) string {
	return fmt.Sprintf("%s/%s@%s", r.Verdict, r.Kind, r.Site)
}

func events(r engine.Result) int {
	return int(r.Stats.Hints + r.Stats.Asserts + r.Stats.RangeChecks + r.Stats.ToBinary)
}

func inconclusiveIf(r engine.Result) (fw.Outcome, bool) {
	if r.Verdict == engine.Inconclusive {
		return fw.Inconcl("engine: " + r.Msg + " @" + r.Site), true
	}
	return fw.Outcome{}, false
}

// harnRunCommitPadded runs fn under the Commit face followed by pad dummy 32-bit checks,
// so that gnark's commit checker selects the 16-bit base width the chip insists on.
func harnRunCommitPadded(fn func(api frontend.API), pad int) engine.Result {
	return harn.Run(engine.Options{Face: engine.Commit}, func(api frontend.API) error {
		fn(api)
		chip := gl.New(api)
		for i := 0; i < pad; i++ {
			chip.RangeCheckWithMaxBits(gl.NewVariable(0), 32)
		}
		return nil
	})
}

func harnRunOpt(opt engine.Options, define func(api frontend.API) error) engine.Result {
	return harn.Run(opt, define)
}

// shortSite: the innermost repository frame outside the goldilocks package.
func shortSite(site string) string {
	parts := strings.Split(site, "<")
	for _, p := range parts {
		if !strings.HasPrefix(p, "goldilocks.") {
			return p
		}
	}
	return parts[0]
}

type instT = inst.Instance
