package props

import (
	"fmt"
	"math/big"
	"math/rand"
	"strings"
	"sync"
	"verifharness/gadget"

	"github.com/consensys/gnark/frontend"
	gl "github.com/wormhole-foundation/example-near-light-client/goldilocks"

	"verifharness/engine"
	"verifharness/fw"
	"verifharness/harn"
	"verifharness/inst"
	"verifharness/ref"
)

const P = ref.P

var bigP = new(big.Int).SetUint64(P)
var bigR = ref.RMod

func bu(x uint64) *big.Int { return new(big.Int).SetUint64(x) }

func pow2(n uint) *big.Int { return new(big.Int).Lsh(big.NewInt(1), n) }

// edgeGL: structured edge values of the Goldilocks field.
var edgeGL = []uint64{0, 1, 1<<32 - 1, 1 << 32, 1 << 63, P - (1 << 32), P - 1}

// randGL draws a canonical element, biased towards edges.
func randGL(r *rand.Rand) uint64 {
	switch r.Intn(10) {
	case 0:
		return edgeGL[r.Intn(len(edgeGL))]
	case 1:
		return P - 1 - uint64(r.Intn(4))
	case 2:
		return uint64(r.Intn(4))
	}
	for {
		v := r.Uint64()
		if v < P {
			return v
		}
	}
}

func randE(r *rand.Rand) ref.E { return ref.E{randGL(r), randGL(r)} }

func randBig(r *rand.Rand, max *big.Int) *big.Int {
	return new(big.Int).Rand(r, max)
}

var allFaces = []engine.Face{engine.Native, engine.Plain, engine.Commit}

func faceByName(s string) engine.Face {
	switch s {
	case "native":
		return engine.Native
	case "plain":
		return engine.Plain
	case "commit":
		return engine.Commit
	}
	panic("face " + s)
}

// refSelfTest validates the reference (KATs; and the real proofs when withProofs).
var refOnce sync.Once
var refErr error

func refSelfTest(withProofs bool) error {
	refOnce.Do(func() {
		if err := ref.SelfTest(); err != nil {
			refErr = err
			return
		}
		if withProofs {
			var fs [][3]string
			for _, f := range inst.All() {
				fs = append(fs, [3]string{f.Proof, f.VD, f.Common})
			}
			refErr = ref.SelfTestProofs(fs, 0)
		}
	})
	return refErr
}

func resStr(r engine.Result) string {
	return fmt.Sprintf("%s/%s@%s", r.Verdict, r.Kind, r.Site)
}

func events(r engine.Result) int {
	return int(r.Stats.Hints + r.Stats.Asserts + r.Stats.RangeChecks + r.Stats.ToBinary)
}

func inconclusiveIf(r engine.Result) (fw.Outcome, bool) {
	if r.Verdict == engine.Inconclusive {
		return fw.Inconcl("engine: " + r.Msg + " @" + r.Site), true
	}
	return fw.Outcome{}, false
}

// harnRunCommitPadded runs fn under the Commit face followed by pad dummy 32-bit checks,
// so that gnark's commit checker selects the 16-bit base width the chip insists on.
func harnRunCommitPadded(fn func(api frontend.API), pad int) engine.Result {
	return harn.Run(engine.Options{Face: engine.Commit}, func(api frontend.API) error {
		fn(api)
		chip := gl.New(api)
		for i := 0; i < pad; i++ {
			chip.RangeCheckWithMaxBits(gl.NewVariable(0), 32)
		}
		return nil
	})
}

func harnRunOpt(opt engine.Options, define func(api frontend.API) error) engine.Result {
	return harn.Run(opt, define)
}

// shortSite: the innermost repository frame outside the goldilocks package.
func shortSite(site string) string {
	parts := strings.Split(site, "<")
	for _, p := range parts {
		if !strings.HasPrefix(p, "goldilocks.") {
			return p
		}
	}
	return parts[0]
}

type instT = inst.Instance

// compiledIO is one input/expected-output pair for a gadget compiled with gnark's builders.
type compiledIO struct {
	In, Out []*big.Int
	Reject  bool // the inputs must NOT be satisfiable together with Out (or at all)
}

// compiledAgree compiles fn with the real builder of sys and checks with the real solver
// that (In, Out) is accepted (or refused when Reject), and that Out with one value changed is
// refused. Catches what only a real builder does (in-place updates of linear expressions,
// constant folding, boolean marking), which no evaluation engine can see.
func compiledAgree(o *fw.Outcome, sys, label string, fn gadget.Fn, nIn, nOut int, ios []compiledIO) (fw.Outcome, bool) {
	cc, err := gadget.Compile(sys, fn, nIn, nOut, gadget.PadCommit, nil)
	if err != nil {
		return fw.Violate("compile_fails:"+label+":"+sys, trunc(err.Error(), 200)), true
	}
	for k, io := range ios {
		err := cc.Solve(io.In, io.Out)
		if io.Reject {
			if err == nil {
				return fw.Violate("compiled_system_accepts_wrong_input:"+label+":"+sys, fmt.Sprintf("case #%d", k)), true
			}
			o.Inc("compiled_" + sys + "_" + label + "_rejected")
			continue
		}
		if err != nil {
			return fw.Violate("compiled_system_rejects_reference_values:"+label+":"+sys, fmt.Sprintf("case #%d: %s", k, trunc(err.Error(), 200))), true
		}
		if len(io.Out) > 0 {
			bad := append([]*big.Int(nil), io.Out...)
			j := (k * 7) % len(bad)
			bad[j] = new(big.Int).Add(bad[j], big.NewInt(1))
			if err := cc.Solve(io.In, bad); err == nil {
				return fw.Violate("compiled_system_accepts_wrong_output:"+label+":"+sys, fmt.Sprintf("case #%d output %d", k, j)), true
			}
		}
		o.Inc("compiled_" + sys + "_" + label + "_agreed")
		o.Events += 2
	}
	o.Add("compiled_"+sys+"_"+label+"_constraints", cc.CS.GetNbConstraints())
	return fw.Outcome{}, false
}
