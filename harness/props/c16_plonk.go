package props

import (
	"fmt"
	"math/big"
	"math/rand"

	"github.com/consensys/gnark/frontend"
	gl "github.com/wormhole-foundation/example-near-light-client/goldilocks"
	"github.com/wormhole-foundation/example-near-light-client/plonk"
	"github.com/wormhole-foundation/example-near-light-client/plonk/gates"
	"github.com/wormhole-foundation/example-near-light-client/poseidon"
	"github.com/wormhole-foundation/example-near-light-client/types"
	"github.com/wormhole-foundation/example-near-light-client/variables"

	"verifharness/engine"
	"verifharness/fw"
	"verifharness/ref"
)

// C16 — the PLONK check accepts exactly when the vanishing identity holds at zeta.

type plonkShape struct {
	NumChallenges, NumRoutedWires, NumWires, QDF, DegreeBits, NumConstants int
	MaxQDF                                                                 int
	GateIDs                                                                []string
	SelIdx                                                                 []int
	Groups                                                                 []ref.Group
	KIs                                                                    []uint64
	NumGateConstraints                                                     int
}

func (s plonkShape) numPartialProducts() int {
	return (s.NumRoutedWires+s.QDF-1)/s.QDF - 1
}

func (s plonkShape) common() types.CommonCircuitData {
	var cd types.CommonCircuitData
	cd.Config.NumWires = uint64(s.NumWires)
	cd.Config.NumRoutedWires = uint64(s.NumRoutedWires)
	cd.Config.NumChallenges = uint64(s.NumChallenges)
	cd.DegreeBits = uint64(s.DegreeBits)
	cd.FriParams.DegreeBits = uint64(s.DegreeBits)
	cd.QuotientDegreeFactor = uint64(s.QDF)
	cd.Config.MaxQuotientDegreeFactor = uint64(s.MaxQDF)
	cd.NumPartialProducts = uint64(s.numPartialProducts())
	cd.NumConstants = uint64(s.NumConstants)
	cd.NumGateConstraints = uint64(s.NumGateConstraints)
	cd.KIs = s.KIs
	cd.GateIds = s.GateIDs
	var idx, st, en []uint64
	for _, x := range s.SelIdx {
		idx = append(idx, uint64(x))
	}
	for _, g := range s.Groups {
		st = append(st, uint64(g.Start))
		en = append(en, uint64(g.End))
	}
	cd.SelectorsInfo = *gates.NewSelectorsInfo(idx, st, en)
	return cd
}

func realShape() plonkShape {
	c := ref.ReadCommon(getInst("A_testdata").Files.Common)
	return plonkShape{NumChallenges: c.NumChallenges, NumRoutedWires: c.NumRoutedWires, NumWires: c.NumWires, QDF: c.QuotientDegreeFactor, DegreeBits: c.DegreeBits, NumConstants: c.NumConstants, MaxQDF: 8, GateIDs: c.GateIDs, SelIdx: c.SelectorIndices, Groups: c.Groups, KIs: c.KIs, NumGateConstraints: c.NumGateConstraints}
}

func synthShape(r *rand.Rand, routed, qdf, nch int) plonkShape {
	ids := []string{gateID("Noop"), gateID("Constant", 2), gateID("Arithmetic", uint64(1+r.Intn(3))), gateID("PublicInput")}
	if r.Intn(2) == 0 {
		ids = append(ids, gateID("MulExtension", 2))
	}
	s := plonkShape{NumChallenges: nch, NumRoutedWires: routed, QDF: qdf, DegreeBits: 3 + r.Intn(10), GateIDs: ids}
	s.MaxQDF = qdf + r.Intn(9-qdf+1) // max_quotient_degree_factor >= quotient_degree_factor
	s.NumWires = routed + 20
	if s.NumWires < 30 {
		s.NumWires = 30
	}
	// two selector groups
	k := 1 + r.Intn(len(ids)-1)
	s.Groups = []ref.Group{{Start: 0, End: k}, {Start: k, End: len(ids)}}
	s.SelIdx = make([]int, len(ids))
	for i := range ids {
		if i >= k {
			s.SelIdx[i] = 1
		}
	}
	s.NumConstants = 2 + 2
	// coset shifts: arbitrary distinct-looking constants (a description is free to choose them)
	for i := 0; i < routed; i++ {
		s.KIs = append(s.KIs, 2+randGL(r)%(P-3))
	}
	s.NumGateConstraints = 12
	return s
}

type plonkInstance struct {
	Open                  ref.OpeningSet
	Betas, Gammas, Alphas []uint64
	Zeta                  ref.E
	PIH                   ref.HashOut
}

// solveInstance draws random openings / challenges and solves the quotient openings so
// that the identity holds.
func solveInstance(r *rand.Rand, s plonkShape) (*plonkInstance, []ref.E, bool) {
	pi := &plonkInstance{}
	re := func(n int) []ref.E {
		o := make([]ref.E, n)
		for i := range o {
			o[i] = c15RandE(r)
		}
		return o
	}
	npp := s.numPartialProducts()
	pi.Open = ref.OpeningSet{Constants: re(s.NumConstants), PlonkSigmas: re(s.NumRoutedWires), Wires: re(s.NumWires), PlonkZs: re(s.NumChallenges), PlonkZsNext: re(s.NumChallenges), PartialProducts: re(s.NumChallenges * npp), QuotientPolys: re(s.NumChallenges * s.QDF)}
	for i := 0; i < s.NumChallenges; i++ {
		pi.Betas = append(pi.Betas, randGL(r))
		pi.Gammas = append(pi.Gammas, randGL(r))
		pi.Alphas = append(pi.Alphas, randGL(r))
	}
	pi.Zeta = randE(r)
	pi.PIH = ref.HashOut{randGL(r), randGL(r), randGL(r), randGL(r)}
	van, zetaPowN, ok := refVanishing(s, pi)
	if !ok {
		return nil, nil, false
	}
	zh := ref.ESub(zetaPowN, ref.EOne)
	if ref.EIsZero(zh) {
		return nil, nil, false
	}
	for i := 0; i < s.NumChallenges; i++ {
		target := ref.EDiv(van[i], zh)
		acc := ref.EZero
		pw := zetaPowN
		for j := 1; j < s.QDF; j++ {
			acc = ref.EAdd(acc, ref.EMul(pi.Open.QuotientPolys[i*s.QDF+j], pw))
			pw = ref.EMul(pw, zetaPowN)
		}
		pi.Open.QuotientPolys[i*s.QDF] = ref.ESub(target, acc)
	}
	return pi, van, true
}

func refVanishing(s plonkShape, pi *plonkInstance) ([]ref.E, ref.E, bool) {
	var specs []ref.GateSpec
	for _, id := range s.GateIDs {
		g, ok := ref.ParseGateID(id)
		if !ok {
			return nil, ref.EZero, false
		}
		specs = append(specs, g)
	}
	zetaPowN := ref.EExpPow2(pi.Zeta, s.DegreeBits)
	vars := ref.Vars{Constants: pi.Open.Constants, Wires: pi.Open.Wires, PIHash: pi.PIH}
	terms := ref.EvaluateGateConstraints(specs, s.SelIdx, s.Groups, s.NumGateConstraints, vars)
	sh := ref.PlonkShape{NumChallenges: s.NumChallenges, NumRoutedWires: s.NumRoutedWires, QuotientDegreeFactor: s.QDF, NumPartialProducts: s.numPartialProducts(), DegreeBits: s.DegreeBits, KIs: s.KIs}
	return ref.EvalVanishingPoly(sh, terms, pi.Zeta, zetaPowN, &pi.Open, pi.Betas, pi.Gammas, pi.Alphas), zetaPowN, true
}

func qes(es []ref.E) []gl.QuadraticExtensionVariable {
	o := make([]gl.QuadraticExtensionVariable, len(es))
	for i := range es {
		o[i] = qeConst(es[i])
	}
	return o
}
func gls(vs []uint64) []gl.Variable {
	o := make([]gl.Variable, len(vs))
	for i := range vs {
		o[i] = gl.NewVariable(vs[i])
	}
	return o
}

func runPlonk(s plonkShape, pi *plonkInstance, wantVan bool) (engine.Result, []ref.E) {
	var van []gl.QuadraticExtensionVariable
	res := harnRunOpt(engine.Options{Face: engine.Native}, func(api frontend.API) error {
		chip := plonk.NewPlonkChip(api, s.common())
		o := variables.OpeningSet{Constants: qes(pi.Open.Constants), PlonkSigmas: qes(pi.Open.PlonkSigmas), Wires: qes(pi.Open.Wires), PlonkZs: qes(pi.Open.PlonkZs), PlonkZsNext: qes(pi.Open.PlonkZsNext), PartialProducts: qes(pi.Open.PartialProducts), QuotientPolys: qes(pi.Open.QuotientPolys)}
		ch := variables.ProofChallenges{PlonkBetas: gls(pi.Betas), PlonkGammas: gls(pi.Gammas), PlonkAlphas: gls(pi.Alphas), PlonkZeta: qeConst(pi.Zeta)}
		h := poseidon.GoldilocksHashOut{gl.NewVariable(pi.PIH[0]), gl.NewVariable(pi.PIH[1]), gl.NewVariable(pi.PIH[2]), gl.NewVariable(pi.PIH[3])}
		if wantVan {
			g := gl.New(api)
			zpn := qeConst(pi.Zeta)
			for i := 0; i < s.DegreeBits; i++ {
				zpn = g.MulExtension(zpn, zpn)
			}
			vars := gates.NewEvaluationVars(o.Constants, o.Wires, h)
			van = chip.VerifEvalVanishingPoly(*vars, ch, o, zpn)
		}
		chip.Verify(ch, o, h)
		return nil
	})
	var out []ref.E
	for _, v := range van {
		out = append(out, ref.E{engine.Value(v[0].Limb).Uint64(), engine.Value(v[1].Limb).Uint64()})
	}
	return res, out
}

func init() {
	register("C16", func() *fw.Prop {
		return &fw.Prop{
			ID:    "C16",
			Level: "exploration",
			Rule:  "cases = (common-data shape: the real one, or synthetic with 1..3 challenge rounds, 2..80 routed wires, quotient degree factor 1..8, random degree bits and small gate sets / selector groups; seeded random openings and challenges over GF(p^2) with the first quotient opening of each round solved by the reference so that the identity holds) -> PlonkChip.Verify must ACCEPT and the in-circuit vanishing values (verif hook) must equal the reference's; then each of a set of single perturbations (one opening of each kind, beta, gamma, alpha, zeta, a public-input-hash word) -> must REJECT. num_partial_products follows plonky2: ceil(routed/factor)-1 (a shorter last chunk when the factor does not divide the routed-wire count). Non-trivial = the solved instance was judged; distinct by case id. Also: several chips with different descriptions in one circuit, a quotient change that makes the two sides differ by (-k*2^32, +k), zeta on the subgroup (zeta = 1 with only the L_0 terms non-zero: must not be accepted), and PlonkChip.Verify compiled with a real builder on the real and a synthetic shape.",
			Assumptions: []string{
				"zeta = 1 / Z_H(zeta) = 0 are not generated (probability 2^-124 for a real challenge)",
			},
			MinEvents: 100000,
			Setup:     func(ctx *fw.Ctx) error { return refSelfTest(true) },
			Gen: func(ctx *fw.Ctx) []fw.Case {
				var cs []fw.Case
				nr := 8
				if !ctx.Quick {
					nr = 120
				}
				for i := 0; i < nr; i++ {
					cs = append(cs, fw.Case{ID: fmt.Sprintf("real/%d", i), Kind: "real", P: map[string]any{"i": i}})
				}
				nreuse := 12
				if !ctx.Quick {
					nreuse = 400
				}
				for i := 0; i < nreuse; i++ {
					cs = append(cs, fw.Case{ID: fmt.Sprintf("reuse/%d", i), Kind: "reuse", P: map[string]any{"i": i}})
				}
				for i := 0; i < nreuse; i++ {
					cs = append(cs, fw.Case{ID: fmt.Sprintf("twochips/%d", i), Kind: "twochips", P: map[string]any{"i": i}})
					cs = append(cs, fw.Case{ID: fmt.Sprintf("zetaone/%d", i), Kind: "zetaone", P: map[string]any{"i": i}})
				}
				for _, shape := range []string{"real", "synth"} {
					cs = append(cs, fw.Case{ID: "compiled/r1cs/" + shape, Kind: "compiled", P: map[string]any{"sys": "r1cs", "shape": shape}})
					if !ctx.Quick {
						cs = append(cs, fw.Case{ID: "compiled/scs/" + shape, Kind: "compiled", P: map[string]any{"sys": "scs", "shape": shape}})
					}
				}
				for nch := 1; nch <= 3; nch++ {
					for qdf := 1; qdf <= 8; qdf++ {
						routeds := []int{2, 3, 7, 8, 16, 24, 80}
						if !ctx.Quick {
							routeds = nil
							for w := 2; w <= 80; w++ {
								if w <= 20 || w%7 == 0 || w == 80 {
									routeds = append(routeds, w)
								}
							}
						}
						for _, w := range routeds {
							if ctx.Quick && (nch+qdf+w)%2 != 0 {
								continue
							}
							cs = append(cs, fw.Case{ID: fmt.Sprintf("synth/ch%d/qdf%d/routed%d", nch, qdf, w), Kind: "synth", P: map[string]any{"nch": nch, "qdf": qdf, "routed": w}})
							if !ctx.Quick {
								for rep := 1; rep <= 3; rep++ {
									cs = append(cs, fw.Case{ID: fmt.Sprintf("synth/ch%d/qdf%d/routed%d/rep%d", nch, qdf, w, rep), Kind: "synth", P: map[string]any{"nch": nch, "qdf": qdf, "routed": w}})
								}
							}
						}
					}
				}
				return cs
			},
			Exec: func(ctx *fw.Ctx, c fw.Case) fw.Outcome {
				var o fw.Outcome
				r := ctx.Rand(c.ID)
				if c.Kind == "reuse" {
					return c16Reuse(ctx, c)
				}
				if c.Kind == "twochips" {
					return c16TwoChips(ctx, c)
				}
				if c.Kind == "compiled" {
					return c16Compiled(ctx, c)
				}
				if c.Kind == "zetaone" {
					return c16ZetaOne(ctx, c)
				}
				var s plonkShape
				if c.Kind == "real" {
					s = realShape()
				} else {
					s = synthShape(r, c.Int("routed"), c.Int("qdf"), c.Int("nch"))
				}
				pi, van, ok := solveInstance(r, s)
				if !ok {
					return fw.Outcome{Trivial: true}
				}
				divides := s.NumRoutedWires%s.QDF == 0
				tag := "divisible"
				if !divides {
					tag = "shorter_last_chunk"
				}
				res, gotVan := runPlonk(s, pi, true)
				o.Events += events(res)
				if io, bad := inconclusiveIf(res); bad {
					return io
				}
				if !res.AcceptedHonestly() {
					key := "rejects_valid_identity:" + tag
					return fw.Violate(key, fmt.Sprintf("case %s (routed=%d factor=%d challenges=%d partial products=%d): %s %s", c.ID, s.NumRoutedWires, s.QDF, s.NumChallenges, s.numPartialProducts(), resStr(res), res.Msg))
				}
				for i := range van {
					if i >= len(gotVan) || gotVan[i] != van[i] {
						return fw.Violate("wrong_vanishing_value:"+tag, fmt.Sprintf("case %s round %d: circuit %v reference %v", c.ID, i, gotVan, van))
					}
				}
				o.Inc("identities_accepted_" + tag)
				// single perturbations
				type pert struct {
					name string
					f    func(p *plonkInstance)
				}
				bumpE := func(e *ref.E) { k := r.Intn(2); e[k] = ref.Add(e[k], 1+uint64(r.Intn(5))) } // exactly one coordinate
				perts := []pert{
					{"constant", func(p *plonkInstance) { bumpE(&p.Open.Constants[r.Intn(len(p.Open.Constants))]) }},
					{"sigma", func(p *plonkInstance) { bumpE(&p.Open.PlonkSigmas[r.Intn(len(p.Open.PlonkSigmas))]) }},
					{"routed_wire", func(p *plonkInstance) { bumpE(&p.Open.Wires[r.Intn(s.NumRoutedWires)]) }},
					{"z", func(p *plonkInstance) { bumpE(&p.Open.PlonkZs[r.Intn(len(p.Open.PlonkZs))]) }},
					{"z_next", func(p *plonkInstance) { bumpE(&p.Open.PlonkZsNext[r.Intn(len(p.Open.PlonkZsNext))]) }},
					{"quotient", func(p *plonkInstance) { bumpE(&p.Open.QuotientPolys[r.Intn(len(p.Open.QuotientPolys))]) }},
					{"beta", func(p *plonkInstance) { i := r.Intn(len(p.Betas)); p.Betas[i] = ref.Add(p.Betas[i], 1) }},
					{"gamma", func(p *plonkInstance) { i := r.Intn(len(p.Gammas)); p.Gammas[i] = ref.Add(p.Gammas[i], 1) }},
					{"alpha", func(p *plonkInstance) { i := r.Intn(len(p.Alphas)); p.Alphas[i] = ref.Add(p.Alphas[i], 1) }},
					{"zeta", func(p *plonkInstance) { bumpE(&p.Zeta) }},
					{"last_sigma", func(p *plonkInstance) { bumpE(&p.Open.PlonkSigmas[len(p.Open.PlonkSigmas)-1]) }},
					{"last_routed_wire", func(p *plonkInstance) { bumpE(&p.Open.Wires[s.NumRoutedWires-1]) }},
					// the two sides of one round's final comparison made to differ by (-k*2^32, +k):
					// invisible to a comparison of packed pairs v0 + v1*2^32
					{"quotient_packed_diff", func(p *plonkInstance) {
						_, zpn, _ := refVanishing(s, p)
						zh := ref.ESub(zpn, ref.EOne)
						if ref.EIsZero(zh) {
							return
						}
						k := uint64(1 + r.Intn(3))
						d := ref.E{ref.Neg(k << 32), k}
						i := r.Intn(s.NumChallenges) * s.QDF
						p.Open.QuotientPolys[i] = ref.EAdd(p.Open.QuotientPolys[i], ref.EDiv(d, zh))
					}},
				}
				if len(pi.Open.PartialProducts) > 0 {
					perts = append(perts, pert{"partial_product", func(p *plonkInstance) { bumpE(&p.Open.PartialProducts[r.Intn(len(p.Open.PartialProducts))]) }})
				}
				for _, pt := range perts {
					q := *pi
					q.Open = ref.OpeningSet{Constants: append([]ref.E(nil), pi.Open.Constants...), PlonkSigmas: append([]ref.E(nil), pi.Open.PlonkSigmas...), Wires: append([]ref.E(nil), pi.Open.Wires...), PlonkZs: append([]ref.E(nil), pi.Open.PlonkZs...), PlonkZsNext: append([]ref.E(nil), pi.Open.PlonkZsNext...), PartialProducts: append([]ref.E(nil), pi.Open.PartialProducts...), QuotientPolys: append([]ref.E(nil), pi.Open.QuotientPolys...)}
					q.Betas = append([]uint64(nil), pi.Betas...)
					q.Gammas = append([]uint64(nil), pi.Gammas...)
					q.Alphas = append([]uint64(nil), pi.Alphas...)
					pt.f(&q)
					// the reference decides whether the identity still holds (it must not)
					rv, zpn, _ := refVanishing(s, &q)
					sh := ref.PlonkShape{NumChallenges: s.NumChallenges, QuotientDegreeFactor: s.QDF}
					if ref.PlonkCheck(sh, rv, zpn, q.Open.QuotientPolys) {
						o.Inc("perturbation_keeps_identity_" + pt.name)
						continue
					}
					res2, _ := runPlonk(s, &q, false)
					o.Events += events(res2)
					if res2.Verdict == engine.Accept {
						return fw.Violate("accepts_broken_identity:"+pt.name, fmt.Sprintf("case %s: perturbing %s left PlonkChip.Verify accepting", c.ID, pt.name))
					}
					o.Inc("perturbations_rejected_" + pt.name)
				}
				o.Sample = map[string]any{"routed": s.NumRoutedWires, "factor": s.QDF, "challenges": s.NumChallenges, "partial_products": s.numPartialProducts(), "gates": len(s.GateIDs), "degree_bits": s.DegreeBits}
				return o
			},
		}
	})
}

// c16Compiled: PlonkChip.Verify compiled with gnark's real builders for one shape; valid
// synthetic identities must be solvable, broken ones not.
func c16Compiled(ctx *fw.Ctx, c fw.Case) fw.Outcome {
	var o fw.Outcome
	r := ctx.Rand(c.ID)
	sys := c.Str("sys")
	var s plonkShape
	if c.Str("shape") == "real" {
		s = realShape()
	} else {
		s = synthShape(r, 11, 4, 2)
	}
	flatE := func(dst []*big.Int, es []ref.E) []*big.Int {
		for _, e := range es {
			dst = append(dst, bu(e[0]), bu(e[1]))
		}
		return dst
	}
	flat := func(pi *plonkInstance) []*big.Int {
		var f []*big.Int
		for _, l := range [][]ref.E{pi.Open.Constants, pi.Open.PlonkSigmas, pi.Open.Wires, pi.Open.PlonkZs, pi.Open.PlonkZsNext, pi.Open.PartialProducts, pi.Open.QuotientPolys} {
			f = flatE(f, l)
		}
		for _, l := range [][]uint64{pi.Betas, pi.Gammas, pi.Alphas} {
			for _, x := range l {
				f = append(f, bu(x))
			}
		}
		f = append(f, bu(pi.Zeta[0]), bu(pi.Zeta[1]))
		for _, x := range pi.PIH {
			f = append(f, bu(x))
		}
		return f
	}
	var tmpl *plonkInstance
	for tmpl == nil {
		if pi, _, ok := solveInstance(r, s); ok {
			tmpl = pi
		}
	}
	lens := []int{len(tmpl.Open.Constants), len(tmpl.Open.PlonkSigmas), len(tmpl.Open.Wires), len(tmpl.Open.PlonkZs), len(tmpl.Open.PlonkZsNext), len(tmpl.Open.PartialProducts), len(tmpl.Open.QuotientPolys)}
	nIn := len(flat(tmpl))
	fn := func(api frontend.API, in []frontend.Variable) []frontend.Variable {
		pos := 0
		takeE := func(n int) []gl.QuadraticExtensionVariable {
			out := make([]gl.QuadraticExtensionVariable, n)
			for i := range out {
				out[i] = gl.QuadraticExtensionVariable{gl.NewVariable(in[pos]), gl.NewVariable(in[pos+1])}
				pos += 2
			}
			return out
		}
		takeF := func(n int) []gl.Variable {
			out := make([]gl.Variable, n)
			for i := range out {
				out[i] = gl.NewVariable(in[pos])
				pos++
			}
			return out
		}
		oset := variables.OpeningSet{Constants: takeE(lens[0]), PlonkSigmas: takeE(lens[1]), Wires: takeE(lens[2]), PlonkZs: takeE(lens[3]), PlonkZsNext: takeE(lens[4]), PartialProducts: takeE(lens[5]), QuotientPolys: takeE(lens[6])}
		ch := variables.ProofChallenges{PlonkBetas: takeF(s.NumChallenges), PlonkGammas: takeF(s.NumChallenges), PlonkAlphas: takeF(s.NumChallenges)}
		ch.PlonkZeta = takeE(1)[0]
		hh := takeF(4)
		chip := plonk.NewPlonkChip(api, s.common())
		chip.Verify(ch, oset, poseidon.GoldilocksHashOut{hh[0], hh[1], hh[2], hh[3]})
		return nil
	}
	var ios []compiledIO
	n := 2
	if !ctx.Quick {
		n = 6
	}
	for len(ios) < 2*n {
		pi, _, ok := solveInstance(r, s)
		if !ok {
			continue
		}
		ios = append(ios, compiledIO{In: flat(pi)})
		// the same instance with one opening changed
		q := *pi
		q.Open.PlonkSigmas = append([]ref.E(nil), pi.Open.PlonkSigmas...)
		k := r.Intn(len(q.Open.PlonkSigmas))
		q.Open.PlonkSigmas[k][r.Intn(2)] = ref.Add(q.Open.PlonkSigmas[k][0], 1+uint64(r.Intn(9)))
		rv, zpn, _ := refVanishing(s, &q)
		if ref.PlonkCheck(ref.PlonkShape{NumChallenges: s.NumChallenges, QuotientDegreeFactor: s.QDF}, rv, zpn, q.Open.QuotientPolys) {
			ios = ios[:len(ios)-1]
			continue
		}
		ios = append(ios, compiledIO{In: flat(&q), Reject: true})
	}
	if v, bad := compiledAgree(&o, sys, "plonk_"+c.Str("shape"), fn, nIn, 0, ios); bad {
		return v
	}
	o.Sample = map[string]any{"system": sys, "shape": c.Str("shape"), "inputs": nIn}
	return o
}

// c16ZetaOne: the evaluation point zeta = 1 (a point of the subgroup: Z_H(zeta) = 0 and
// L_0(zeta) = 1). All gate filters vanish (selectors at the unused marker) and the partial
// products are chained consistently, so the only non-zero terms are L_0(zeta)*(Z(zeta)-1):
// the identity is false for Z(zeta) != 1 and the opening set must not be accepted.
func c16ZetaOne(ctx *fw.Ctx, c fw.Case) fw.Outcome {
	var o fw.Outcome
	r := ctx.Rand(c.ID)
	s := synthShape(r, 2+r.Intn(20), 1+r.Intn(8), 1+r.Intn(3))
	var pi *plonkInstance
	for pi == nil {
		if p, _, ok := solveInstance(r, s); ok {
			pi = p
		}
	}
	pi.Zeta = ref.EOne
	for i := range s.Groups {
		pi.Open.Constants[i] = ref.EFrom(ref.UnusedSelector)
	}
	np := s.numPartialProducts()
	for i := 0; i < s.NumChallenges; i++ {
		zx := pi.Open.PlonkZs[i]
		if zx == ref.EOne {
			zx = ref.E{2, 0}
			pi.Open.PlonkZs[i] = zx
		}
		acc := zx
		k := 0
		for st := 0; st < s.NumRoutedWires; st += s.QDF {
			e := st + s.QDF
			if e > s.NumRoutedWires {
				e = s.NumRoutedWires
			}
			n, d := ref.EOne, ref.EOne
			for j := st; j < e; j++ {
				w := pi.Open.Wires[j]
				sid := ref.EScalar(pi.Zeta, s.KIs[j])
				n = ref.EMul(n, ref.EAdd(ref.EAdd(w, ref.EScalar(sid, pi.Betas[i])), ref.EFrom(pi.Gammas[i])))
				d = ref.EMul(d, ref.EAdd(ref.EAdd(w, ref.EScalar(pi.Open.PlonkSigmas[j], pi.Betas[i])), ref.EFrom(pi.Gammas[i])))
			}
			if ref.EIsZero(d) {
				return fw.Outcome{Trivial: true}
			}
			acc = ref.EDiv(ref.EMul(acc, n), d)
			if k < np {
				pi.Open.PartialProducts[i*np+k] = acc
			} else {
				pi.Open.PlonkZsNext[i] = acc
			}
			k++
		}
	}
	rv, zpn, ok := refVanishing(s, pi)
	if !ok {
		return fw.Inconcl("reference cannot evaluate the shape")
	}
	if ref.PlonkCheck(ref.PlonkShape{NumChallenges: s.NumChallenges, QuotientDegreeFactor: s.QDF}, rv, zpn, pi.Open.QuotientPolys) {
		return fw.Outcome{Trivial: true} // the L0 terms cancel by chance
	}
	res, _ := runPlonk(s, pi, false)
	o.Events += events(res)
	if io, bad := inconclusiveIf(res); bad {
		return io
	}
	if res.Verdict == engine.Accept {
		return fw.Violate("accepts_broken_identity:zeta_on_the_subgroup", fmt.Sprintf("case %s: zeta = 1, every term vanishes except L_0(zeta)*(Z(zeta)-1) with Z(zeta) = %v: accepted", c.ID, pi.Open.PlonkZs[0]))
	}
	o.Inc("zeta_one_not_accepted_" + res.Verdict.String())
	o.Sample = map[string]any{"routed": s.NumRoutedWires, "factor": s.QDF, "challenges": s.NumChallenges, "verdict": resStr(res)}
	return o
}

// c16TwoChips: several PlonkChips with DIFFERENT circuit descriptions built in one circuit
// (a wrapper verifying proofs of two inner circuits does exactly that): each chip must use
// its own description, whatever was built before on the same api.
func c16TwoChips(ctx *fw.Ctx, c fw.Case) fw.Outcome {
	var o fw.Outcome
	r := ctx.Rand(c.ID)
	n := 2 + r.Intn(2)
	var shapes []plonkShape
	var insts []*plonkInstance
	for len(insts) < n {
		s := synthShape(r, 2+r.Intn(30), 1+r.Intn(8), 1+r.Intn(3))
		if len(insts) == 1 && c.Int("i")%3 == 0 {
			// same shape as the first one except for one coset shift
			s = shapes[0]
			s.KIs = append([]uint64(nil), s.KIs...)
			k := r.Intn(len(s.KIs))
			s.KIs[k] = ref.Add(s.KIs[k], 1)
		}
		pi, _, ok := solveInstance(r, s)
		if ok {
			shapes = append(shapes, s)
			insts = append(insts, pi)
		}
	}
	brokenAt := -1
	if c.Int("i")%2 == 1 {
		brokenAt = r.Intn(n)
		q := insts[brokenAt]
		k := r.Intn(len(q.Open.PlonkSigmas))
		q.Open.PlonkSigmas[k][r.Intn(2)] = ref.Add(q.Open.PlonkSigmas[k][0], 1+uint64(r.Intn(9)))
		rv, zpn, _ := refVanishing(shapes[brokenAt], q)
		if ref.PlonkCheck(ref.PlonkShape{NumChallenges: shapes[brokenAt].NumChallenges, QuotientDegreeFactor: shapes[brokenAt].QDF}, rv, zpn, q.Open.QuotientPolys) {
			return fw.Outcome{Trivial: true}
		}
	}
	res := harnRunOpt(engine.Options{Face: engine.Native}, func(api frontend.API) error {
		for i, pi := range insts {
			chip := plonk.NewPlonkChip(api, shapes[i].common())
			oset := variables.OpeningSet{Constants: qes(pi.Open.Constants), PlonkSigmas: qes(pi.Open.PlonkSigmas), Wires: qes(pi.Open.Wires), PlonkZs: qes(pi.Open.PlonkZs), PlonkZsNext: qes(pi.Open.PlonkZsNext), PartialProducts: qes(pi.Open.PartialProducts), QuotientPolys: qes(pi.Open.QuotientPolys)}
			ch := variables.ProofChallenges{PlonkBetas: gls(pi.Betas), PlonkGammas: gls(pi.Gammas), PlonkAlphas: gls(pi.Alphas), PlonkZeta: qeConst(pi.Zeta)}
			h := poseidon.GoldilocksHashOut{gl.NewVariable(pi.PIH[0]), gl.NewVariable(pi.PIH[1]), gl.NewVariable(pi.PIH[2]), gl.NewVariable(pi.PIH[3])}
			chip.Verify(ch, oset, h)
		}
		return nil
	})
	o.Events += events(res)
	if io, bad := inconclusiveIf(res); bad {
		return io
	}
	if brokenAt < 0 && !res.AcceptedHonestly() {
		return fw.Violate("second_chip_rejects_valid_identity", fmt.Sprintf("case %s: %d chips with their own descriptions in one circuit, all identities valid: %s %s", c.ID, n, resStr(res), res.Msg))
	}
	if brokenAt >= 0 && res.Verdict == engine.Accept {
		return fw.Violate("second_chip_accepts_broken_identity", fmt.Sprintf("case %s: chip #%d of %d was given a broken identity and the circuit accepted", c.ID, brokenAt, n))
	}
	o.Inc("multi_chip_circuits")
	o.Sample = map[string]any{"chips_in_one_circuit": n, "broken_at": brokenAt}
	return o
}

// c16Reuse: one PlonkChip verifies several instances in sequence inside one circuit (a
// VerifierChip builds its PlonkChip once); each valid instance must be accepted and a broken
// one rejected, whatever was verified before.
func c16Reuse(ctx *fw.Ctx, c fw.Case) fw.Outcome {
	var o fw.Outcome
	r := ctx.Rand(c.ID)
	s := synthShape(r, 2+r.Intn(30), 1+r.Intn(8), 1+r.Intn(3))
	if c.Int("i")%4 == 0 {
		s = realShape()
	}
	n := 2 + r.Intn(2)
	var insts []*plonkInstance
	for len(insts) < n {
		pi, _, ok := solveInstance(r, s)
		if ok {
			insts = append(insts, pi)
		}
	}
	brokenAt := -1
	if c.Int("i")%2 == 1 {
		brokenAt = 1 + r.Intn(n-1) // never the first: the break must be seen after a valid verification
		q := insts[brokenAt]
		k := r.Intn(len(q.Open.PlonkSigmas))
		q.Open.PlonkSigmas[k][r.Intn(2)] = ref.Add(q.Open.PlonkSigmas[k][0], 1+uint64(r.Intn(9)))
		rv, zpn, _ := refVanishing(s, q)
		if ref.PlonkCheck(ref.PlonkShape{NumChallenges: s.NumChallenges, QuotientDegreeFactor: s.QDF}, rv, zpn, q.Open.QuotientPolys) {
			return fw.Outcome{Trivial: true}
		}
	}
	res := harnRunOpt(engine.Options{Face: engine.Native}, func(api frontend.API) error {
		chip := plonk.NewPlonkChip(api, s.common())
		for _, pi := range insts {
			oset := variables.OpeningSet{Constants: qes(pi.Open.Constants), PlonkSigmas: qes(pi.Open.PlonkSigmas), Wires: qes(pi.Open.Wires), PlonkZs: qes(pi.Open.PlonkZs), PlonkZsNext: qes(pi.Open.PlonkZsNext), PartialProducts: qes(pi.Open.PartialProducts), QuotientPolys: qes(pi.Open.QuotientPolys)}
			ch := variables.ProofChallenges{PlonkBetas: gls(pi.Betas), PlonkGammas: gls(pi.Gammas), PlonkAlphas: gls(pi.Alphas), PlonkZeta: qeConst(pi.Zeta)}
			h := poseidon.GoldilocksHashOut{gl.NewVariable(pi.PIH[0]), gl.NewVariable(pi.PIH[1]), gl.NewVariable(pi.PIH[2]), gl.NewVariable(pi.PIH[3])}
			chip.Verify(ch, oset, h)
		}
		return nil
	})
	o.Events += events(res)
	if io, bad := inconclusiveIf(res); bad {
		return io
	}
	if brokenAt < 0 && !res.AcceptedHonestly() {
		return fw.Violate("chip_reuse_rejects_valid_identity", fmt.Sprintf("case %s: %d valid instances verified by one PlonkChip: %s %s", c.ID, n, resStr(res), res.Msg))
	}
	if brokenAt >= 0 && res.Verdict == engine.Accept {
		return fw.Violate("chip_reuse_accepts_broken_identity", fmt.Sprintf("case %s: instance #%d of %d verified by one PlonkChip was broken and still accepted", c.ID, brokenAt, n))
	}
	if brokenAt < 0 {
		o.Inc("reuse_sequences_accepted")
	} else {
		o.Inc("reuse_sequences_rejected")
	}
	o.Sample = map[string]any{"instances_on_one_chip": n, "broken_at": brokenAt, "routed": s.NumRoutedWires, "factor": s.QDF}
	return o
}
