package props

import (
	"fmt"
	"math/big"
	"math/rand"
	"strings"

	"github.com/consensys/gnark/frontend"
	gl "github.com/wormhole-foundation/example-near-light-client/goldilocks"
	"github.com/wormhole-foundation/example-near-light-client/plonk/gates"
	"github.com/wormhole-foundation/example-near-light-client/poseidon"

	"verifharness/engine"
	"verifharness/fw"
	"verifharness/ref"
)

// C15 — gate evaluators equal plonky2 gate polynomials, with exact selector filtering.

const phantom = "_phantom: PhantomData<plonky2_field::goldilocks_field::GoldilocksField> }<D=2>"

func gateID(typ string, p ...uint64) string {
	switch typ {
	case "Arithmetic":
		return fmt.Sprintf("ArithmeticGate { num_ops: %d }", p[0])
	case "ArithmeticExtension":
		return fmt.Sprintf("ArithmeticExtensionGate { num_ops: %d }", p[0])
	case "MulExtension":
		return fmt.Sprintf("MulExtensionGate { num_ops: %d }", p[0])
	case "BaseSum":
		return fmt.Sprintf("BaseSumGate { num_limbs: %d } + Base: %d", p[0], p[1])
	case "Constant":
		return fmt.Sprintf("ConstantGate { num_consts: %d }", p[0])
	case "Exponentiation":
		return fmt.Sprintf("ExponentiationGate { num_power_bits: %d, %s", p[0], phantom)
	case "RandomAccess":
		return fmt.Sprintf("RandomAccessGate { bits: %d, num_copies: %d, num_extra_constants: %d, %s", p[0], p[1], p[2], phantom)
	case "Reducing":
		return fmt.Sprintf("ReducingGate { num_coeffs: %d }", p[0])
	case "ReducingExtension":
		return fmt.Sprintf("ReducingExtensionGate { num_coeffs: %d }", p[0])
	case "Noop":
		return "NoopGate"
	case "PublicInput":
		return "PublicInputGate"
	case "Poseidon":
		return "PoseidonGate(PhantomData<plonky2_field::goldilocks_field::GoldilocksField>)<WIDTH=12>"
	case "PoseidonMds":
		return "PoseidonMdsGate(PhantomData<plonky2_field::goldilocks_field::GoldilocksField>)<WIDTH=12>"
	case "CosetInterpolation":
		sb, deg := int(p[0]), p[1]
		ws := ref.BarycentricWeights(ref.TwoAdicSubgroup(sb))
		strs := make([]string, len(ws))
		for i, w := range ws {
			strs[i] = fmt.Sprint(w)
		}
		return fmt.Sprintf("CosetInterpolationGate { subgroup_bits: %d, degree: %d, barycentric_weights: [%s], %s", sb, deg, strings.Join(strs, ", "), phantom)
	}
	panic(typ)
}

// gateGrid returns identifier strings over the parameter ranges of the property.
func gateGrid(quick bool) []string {
	var ids []string
	rng := func(lo, hi uint64, qs ...uint64) []uint64 {
		if quick {
			return qs
		}
		var o []uint64
		for v := lo; v <= hi; v++ {
			o = append(o, v)
		}
		return o
	}
	for _, n := range rng(1, 20, 1, 2, 10, 20) {
		ids = append(ids, gateID("Arithmetic", n))
	}
	for _, n := range rng(1, 10, 1, 3, 10) {
		ids = append(ids, gateID("ArithmeticExtension", n))
	}
	for _, n := range rng(1, 13, 1, 13) {
		ids = append(ids, gateID("MulExtension", n))
	}
	for _, b := range []uint64{2, 3, 4} {
		for _, n := range rng(1, 63, 1, 2, 32, 63) {
			if !quick && n > 8 && n%7 != 0 && n != 63 {
				continue
			}
			ids = append(ids, gateID("BaseSum", n, b))
		}
	}
	// bases of two and three digits (few limbs: the range product has `base` factors)
	for _, bn := range [][2]uint64{{10, 3}, {16, 2}, {16, 15}, {32, 2}, {100, 1}, {256, 2}} {
		ids = append(ids, gateID("BaseSum", bn[1], bn[0]))
	}
	for _, n := range rng(1, 4, 1, 2) {
		ids = append(ids, gateID("Constant", n))
	}
	for _, n := range rng(1, 67, 1, 2, 67) {
		if !quick && n > 8 && n%9 != 0 && n != 67 {
			continue
		}
		ids = append(ids, gateID("Exponentiation", n))
	}
	for bits := uint64(1); bits <= 5; bits++ {
		for copies := uint64(1); copies <= 4; copies++ {
			for extra := uint64(0); extra <= 2; extra++ {
				if (2+(1<<bits))*copies+extra+bits*copies > 380 {
					continue
				}
				if quick && !((bits == 1 && copies == 1) || (bits == 4 && copies == 4 && extra == 2) || (bits == 5 && copies == 2 && extra == 0) || (bits == 2 && copies == 3 && extra == 1)) {
					continue
				}
				ids = append(ids, gateID("RandomAccess", bits, copies, extra))
			}
		}
	}
	for _, n := range rng(1, 43, 1, 2, 43) {
		if !quick && n > 8 && n%6 != 0 && n != 43 {
			continue
		}
		ids = append(ids, gateID("Reducing", n))
	}
	for _, n := range rng(1, 32, 1, 2, 32) {
		if !quick && n > 8 && n%6 != 0 && n != 32 {
			continue
		}
		ids = append(ids, gateID("ReducingExtension", n))
	}
	for sb := uint64(2); sb <= 4; sb++ {
		for deg := uint64(2); deg <= 6; deg++ {
			if quick && !((sb == 2 && deg == 2) || (sb == 4 && deg == 6) || (sb == 3 && deg == 4)) {
				continue
			}
			if deg > 1<<sb {
				continue // not a gate plonky2 can build: the first chunk alone would need more points than exist
			}
			ids = append(ids, gateID("CosetInterpolation", sb, deg))
		}
	}
	// larger subgroups (FRI arities 32, 64, 128 are legal): many barycentric weights
	ids = append(ids, gateID("CosetInterpolation", 5, 3), gateID("CosetInterpolation", 6, 5))
	ids = append(ids, gateID("Noop"), gateID("PublicInput"), gateID("Poseidon"), gateID("PoseidonMds"))
	return ids
}

const c15Wires = 400
const c15Consts = 8

func qeConst(e ref.E) gl.QuadraticExtensionVariable {
	return gl.QuadraticExtensionVariable{gl.NewVariable(e[0]), gl.NewVariable(e[1])}
}

func c15RandE(r *rand.Rand) ref.E {
	switch r.Intn(10) {
	case 8:
		return ref.E{0, 1 + randGL(r)%(P-1)} // zero first coordinate, non-zero second
	case 9:
		return ref.E{1, 1 + randGL(r)%(P-1)} // unit first coordinate, non-zero second
	}
	switch r.Intn(8) {
	case 0:
		return ref.E{edgeGL[r.Intn(7)], edgeGL[r.Intn(7)]}
	case 1:
		return ref.E{uint64(r.Intn(4)), 0}
	}
	return randE(r)
}

// evalGateCircuit runs Gate.EvalUnfiltered in the engine.
func evalGateCircuit(id string, consts, wires []ref.E, pih ref.HashOut) ([]ref.E, engine.Result) {
	var outs []gl.QuadraticExtensionVariable
	res := harnRunOpt(engine.Options{Face: engine.Native}, func(api frontend.API) error {
		g := gates.GateInstanceFromId(id)
		lc := make([]gl.QuadraticExtensionVariable, len(consts))
		for i := range consts {
			lc[i] = qeConst(consts[i])
		}
		lw := make([]gl.QuadraticExtensionVariable, len(wires))
		for i := range wires {
			lw[i] = qeConst(wires[i])
		}
		h := poseidon.GoldilocksHashOut{gl.NewVariable(pih[0]), gl.NewVariable(pih[1]), gl.NewVariable(pih[2]), gl.NewVariable(pih[3])}
		vars := gates.NewEvaluationVars(lc, lw, h)
		outs = g.EvalUnfiltered(api, gl.New(api), *vars)
		return nil
	})
	got := make([]ref.E, len(outs))
	if res.Verdict == engine.Accept {
		for i, q := range outs {
			a, b := engine.Value(q[0].Limb), engine.Value(q[1].Limb)
			if !a.IsUint64() || !b.IsUint64() {
				got[i] = ref.E{^uint64(0), ^uint64(0)}
				continue
			}
			got[i] = ref.E{a.Uint64(), b.Uint64()}
		}
	}
	return got, res
}

func init() {
	register("C15", func() *fw.Prop {
		return &fw.Prop{
			ID:    "C15",
			Level: "exploration",
			Rule:  "cases = 'rand' (gate identifier generated from the plonky2 Debug format over the parameter grid, instantiated through GateInstanceFromId, seeded random wire / constant / public-input-hash rows over GF(p^2) with edge values) -> EvalUnfiltered must equal the reference gate polynomial vector (same length, same order); 'honest' (same gates, rows generated by the reference so that the gate is satisfied) -> every constraint is zero in circuit and reference; 'filter' (random gate sets, selector group layouts and selector values incl. a gate's own row index and the unused-selector marker) -> EvaluateGateConstraints equals sum of filter*constraints position-wise. Non-trivial = vectors compared; distinct by (identifier, row seed). Also: two- and three-digit BaseSum bases, coordinates (0, y) and (1, y), fewer constraint slots than the largest gate needs (must be refused), and a gate list with one gate of every type compiled with a real builder (inputs are circuit variables).",
			Assumptions: []string{
				"the reference gate polynomials (ref/gates.go) are validated by the reference verifier accepting all five real proofs (13 gate types) and by vanishing on reference-generated honest rows; the Poseidon gate is evaluated with the naive round structure",
			},
			MinEvents: 100000,
			Setup:     func(ctx *fw.Ctx) error { return refSelfTest(true) },
			Gen: func(ctx *fw.Ctx) []fw.Case {
				var cs []fw.Case
				ids := gateGrid(ctx.Quick)
				reps := 6
				if !ctx.Quick {
					reps = 60
				}
				for _, id := range ids {
					for k := 0; k < reps; k++ {
						cs = append(cs, fw.Case{ID: fmt.Sprintf("rand/%s/%d", trunc(id, 70), k), Kind: "rand", P: map[string]any{"id": id, "k": k}})
						cs = append(cs, fw.Case{ID: fmt.Sprintf("honest/%s/%d", trunc(id, 70), k), Kind: "honest", P: map[string]any{"id": id, "k": k}})
					}
				}
				nf := 100
				if !ctx.Quick {
					nf = 4000
				}
				for i := 0; i < nf; i++ {
					cs = append(cs, fw.Case{ID: fmt.Sprintf("filter/%d", i), Kind: "filter", P: map[string]any{"i": i}})
				}
				// the gate list evaluated on really compiled systems (variables instead of constants)
				cs = append(cs, fw.Case{ID: "compiled/r1cs/0", Kind: "compiled", P: map[string]any{"sys": "r1cs", "part": 0}})
				cs = append(cs, fw.Case{ID: "compiled/r1cs/1", Kind: "compiled", P: map[string]any{"sys": "r1cs", "part": 1}})
				if !ctx.Quick {
					cs = append(cs, fw.Case{ID: "compiled/scs/0", Kind: "compiled", P: map[string]any{"sys": "scs", "part": 0}})
					cs = append(cs, fw.Case{ID: "compiled/scs/1", Kind: "compiled", P: map[string]any{"sys": "scs", "part": 1}})
				}
				return cs
			},
			Exec: func(ctx *fw.Ctx, c fw.Case) fw.Outcome {
				var o fw.Outcome
				r := ctx.Rand(c.ID)
				mkRow := func() ([]ref.E, []ref.E, ref.HashOut) {
					consts := make([]ref.E, c15Consts)
					for i := range consts {
						consts[i] = c15RandE(r)
					}
					wires := make([]ref.E, c15Wires)
					for i := range wires {
						wires[i] = c15RandE(r)
					}
					return consts, wires, ref.HashOut{randGL(r), randGL(r), randGL(r), randGL(r)}
				}
				switch c.Kind {
				case "compiled":
					// one gate of every type (part 0: first parameterisation of the grid, part 1: last),
					// two selector groups, inputs are circuit variables
					sys := c.Str("sys")
					byType := map[string][]string{}
					var order []string
					for _, id := range gateGrid(true) {
						sp, _ := ref.ParseGateID(id)
						if len(byType[sp.Type]) == 0 {
							order = append(order, sp.Type)
						}
						byType[sp.Type] = append(byType[sp.Type], id)
					}
					var chosen []string
					var specs []ref.GateSpec
					for _, t := range order {
						id := byType[t][0]
						if c.Int("part") == 1 {
							id = byType[t][len(byType[t])-1]
						}
						sp, _ := ref.ParseGateID(id)
						chosen = append(chosen, id)
						specs = append(specs, sp)
					}
					ng := len(chosen)
					k := ng / 2
					groups := []ref.Group{{Start: 0, End: k}, {Start: k, End: ng}}
					selIdx := make([]int, ng)
					for i := k; i < ng; i++ {
						selIdx[i] = 1
					}
					nsel := 2
					nconst := nsel + c15Consts
					numC := 0
					{
						cz := make([]ref.E, c15Consts)
						wz := make([]ref.E, c15Wires)
						for _, sp := range specs {
							if n := len(ref.EvalUnfiltered(sp, ref.Vars{Constants: cz, Wires: wz})); n > numC {
								numC = n
							}
						}
					}
					fn := func(api frontend.API, in []frontend.Variable) []frontend.Variable {
						var gs []gates.Gate
						for _, id := range chosen {
							gs = append(gs, gates.GateInstanceFromId(id))
						}
						chip := gates.NewEvaluateGatesChip(api, gs, uint64(numC), *gates.NewSelectorsInfo([]uint64(u64s(selIdx)), []uint64{0, uint64(k)}, []uint64{uint64(k), uint64(ng)}))
						lc := make([]gl.QuadraticExtensionVariable, nconst)
						for i := range lc {
							lc[i] = gl.QuadraticExtensionVariable{gl.NewVariable(in[2*i]), gl.NewVariable(in[2*i+1])}
						}
						off := 2 * nconst
						lw := make([]gl.QuadraticExtensionVariable, c15Wires)
						for i := range lw {
							lw[i] = gl.QuadraticExtensionVariable{gl.NewVariable(in[off+2*i]), gl.NewVariable(in[off+2*i+1])}
						}
						off += 2 * c15Wires
						h := poseidon.GoldilocksHashOut{gl.NewVariable(in[off]), gl.NewVariable(in[off+1]), gl.NewVariable(in[off+2]), gl.NewVariable(in[off+3])}
						outs := chip.EvaluateGateConstraints(*gates.NewEvaluationVars(lc, lw, h))
						var flat []frontend.Variable
						for _, q := range outs {
							flat = append(flat, q[0].Limb, q[1].Limb)
						}
						return flat
					}
					nIn := 2*nconst + 2*c15Wires + 4
					var ios []compiledIO
					nrows := 3
					if !ctx.Quick {
						nrows = 12
					}
					for row := 0; row < nrows; row++ {
						consts := make([]ref.E, nconst)
						for i := range consts {
							consts[i] = c15RandE(r)
						}
						// selectors: row 0 selects a gate of group 0, row 1 one of group 1, then random
						switch row {
						case 0:
							consts[0], consts[1] = ref.EFrom(uint64(r.Intn(k))), ref.EFrom(ref.UnusedSelector)
						case 1:
							consts[0], consts[1] = ref.EFrom(ref.UnusedSelector), ref.EFrom(uint64(k+r.Intn(ng-k)))
						}
						wires := make([]ref.E, c15Wires)
						for i := range wires {
							wires[i] = c15RandE(r)
						}
						pih := ref.HashOut{randGL(r), randGL(r), randGL(r), randGL(r)}
						want := ref.EvaluateGateConstraints(specs, selIdx, groups, numC, ref.Vars{Constants: consts, Wires: wires, PIHash: pih})
						var in, out []*big.Int
						for _, e := range consts {
							in = append(in, bu(e[0]), bu(e[1]))
						}
						for _, e := range wires {
							in = append(in, bu(e[0]), bu(e[1]))
						}
						for _, x := range pih {
							in = append(in, bu(x))
						}
						for _, e := range want {
							out = append(out, bu(e[0]), bu(e[1]))
						}
						ios = append(ios, compiledIO{In: in, Out: out})
					}
					if v, bad := compiledAgree(&o, sys, "gates", fn, nIn, 2*numC, ios); bad {
						return v
					}
					o.Sample = map[string]any{"system": sys, "gates": specTypes(specs), "constraints_per_row": numC}
				case "rand", "honest":
					id := c.Str("id")
					spec, ok := ref.ParseGateID(id)
					if !ok {
						return fw.Inconcl("reference cannot parse generated id " + id)
					}
					consts, wires, pih := mkRow()
					if c.Kind == "honest" {
						w, ok := ref.HonestRow(spec, r, consts, pih, c15Wires)
						if !ok {
							return fw.Outcome{Trivial: true}
						}
						wires = w
					}
					want := ref.EvalUnfiltered(spec, ref.Vars{Constants: consts, Wires: wires, PIHash: pih})
					got, res := evalGateCircuit(id, consts, wires, pih)
					o.Events += events(res) + 1
					if io, bad := inconclusiveIf(res); bad {
						return io
					}
					if !res.AcceptedHonestly() {
						return fw.Violate("gate_eval_failed:"+spec.Type, fmt.Sprintf("%s: %s %s", trunc(id, 80), resStr(res), res.Msg))
					}
					if len(got) != len(want) {
						return fw.Violate("wrong_constraint_count:"+spec.Type, fmt.Sprintf("%s: %d constraints, reference %d", trunc(id, 80), len(got), len(want)))
					}
					for i := range want {
						if got[i] != want[i] {
							return fw.Violate("wrong_constraint_value:"+spec.Type, fmt.Sprintf("%s (%s row): constraint %d = %v, reference %v", trunc(id, 80), c.Kind, i, got[i], want[i]))
						}
						if c.Kind == "honest" && !ref.EIsZero(want[i]) {
							return fw.Inconcl(fmt.Sprintf("reference honest row does not satisfy %s constraint %d", spec.Type, i))
						}
					}
					o.Inc(c.Kind + "_rows_" + spec.Type)
					o.Add("constraints_compared", len(want))
					o.Sample = map[string]any{"gate": trunc(id, 60), "constraints": len(want), "row": c.Kind}
				case "filter":
					ids := gateGrid(true)
					ng := 2 + r.Intn(8)
					var chosen []string
					var specs []ref.GateSpec
					for i := 0; i < ng; i++ {
						id := ids[r.Intn(len(ids))]
						s, _ := ref.ParseGateID(id)
						chosen = append(chosen, id)
						specs = append(specs, s)
					}
					// random group layout: consecutive groups covering 0..ng
					var groups []ref.Group
					selIdx := make([]int, ng)
					start := 0
					for start < ng {
						sz := 1 + r.Intn(ng-start)
						if r.Intn(3) == 0 {
							sz = ng - start
						}
						for i := start; i < start+sz; i++ {
							selIdx[i] = len(groups)
						}
						groups = append(groups, ref.Group{Start: start, End: start + sz})
						start += sz
					}
					// plonky2 multiplies over every row index of the group range, whether or not a gate
					// sits there: sometimes let the last group run past the gate list
					if r.Intn(3) == 0 {
						groups[len(groups)-1].End += 1 + r.Intn(3)
					}
					nsel := len(groups)
					consts := make([]ref.E, nsel+c15Consts)
					for i := range consts {
						consts[i] = c15RandE(r)
					}
					for s := 0; s < nsel; s++ {
						switch r.Intn(4) {
						case 0:
							consts[s] = ref.EFrom(uint64(groups[s].Start + r.Intn(groups[s].End-groups[s].Start)))
						case 1:
							consts[s] = ref.EFrom(ref.UnusedSelector)
						}
					}
					wires := make([]ref.E, c15Wires)
					for i := range wires {
						wires[i] = c15RandE(r)
					}
					pih := ref.HashOut{randGL(r), randGL(r), randGL(r), randGL(r)}
					numC := 0
					for _, s := range specs {
						n := len(ref.EvalUnfiltered(s, ref.Vars{Constants: consts[nsel:], Wires: wires, PIHash: pih}))
						if n > numC {
							numC = n
						}
					}
					tooFew := c.Int("i")%6 == 5 && numC > 1
					if tooFew {
						numC -= 1 + r.Intn(numC-1) // fewer slots than the largest gate needs: must be refused
					} else {
						numC += r.Intn(3)
					}
					var want []ref.E
					if !tooFew {
						want = ref.EvaluateGateConstraints(specs, selIdx, groups, numC, ref.Vars{Constants: consts, Wires: wires, PIHash: pih})
					}
					var outs []gl.QuadraticExtensionVariable
					res := harnRunOpt(engine.Options{Face: engine.Native}, func(api frontend.API) error {
						var gs []gates.Gate
						for _, id := range chosen {
							gs = append(gs, gates.GateInstanceFromId(id))
						}
						var idx, st, en []uint64
						for _, x := range selIdx {
							idx = append(idx, uint64(x))
						}
						for _, g := range groups {
							st = append(st, uint64(g.Start))
							en = append(en, uint64(g.End))
						}
						chip := gates.NewEvaluateGatesChip(api, gs, uint64(numC), *gates.NewSelectorsInfo(idx, st, en))
						lc := make([]gl.QuadraticExtensionVariable, len(consts))
						for i := range consts {
							lc[i] = qeConst(consts[i])
						}
						lw := make([]gl.QuadraticExtensionVariable, len(wires))
						for i := range wires {
							lw[i] = qeConst(wires[i])
						}
						h := poseidon.GoldilocksHashOut{gl.NewVariable(pih[0]), gl.NewVariable(pih[1]), gl.NewVariable(pih[2]), gl.NewVariable(pih[3])}
						outs = chip.EvaluateGateConstraints(*gates.NewEvaluationVars(lc, lw, h))
						return nil
					})
					o.Events += events(res) + 1
					if io, bad := inconclusiveIf(res); bad {
						return io
					}
					if tooFew {
						if res.Verdict == engine.Accept {
							return fw.Violate("too_few_constraint_slots_not_refused", fmt.Sprintf("gates %v with num_gate_constraints = %d: constraints beyond that count were dropped silently", specTypes(specs), numC))
						}
						o.Inc("too_few_constraint_slots_refused")
						return o
					}
					if !res.AcceptedHonestly() {
						return fw.Violate("evaluate_gate_constraints_failed", fmt.Sprintf("gates %v groups %v: %s %s", specTypes(specs), groups, resStr(res), res.Msg))
					}
					if len(outs) != len(want) {
						return fw.Violate("wrong_combined_count", fmt.Sprintf("%d vs %d", len(outs), len(want)))
					}
					for i := range want {
						g := ref.E{engine.Value(outs[i][0].Limb).Uint64(), engine.Value(outs[i][1].Limb).Uint64()}
						if g != want[i] {
							return fw.Violate("wrong_filtered_sum", fmt.Sprintf("gates %v groups %v selectors %v: position %d = %v, reference %v", specTypes(specs), groups, consts[:nsel], i, g, want[i]))
						}
					}
					o.Inc("filter_layouts_checked")
					if nsel > 1 {
						o.Inc("layouts_with_many_selectors")
					}
					o.Sample = map[string]any{"gates": specTypes(specs), "groups": groups, "constraints": numC}
				}
				return o
			},
		}
	})
}

func u64s(a []int) []uint64 {
	o := make([]uint64, len(a))
	for i := range a {
		o[i] = uint64(a[i])
	}
	return o
}

func specTypes(s []ref.GateSpec) []string {
	o := make([]string, len(s))
	for i := range s {
		o[i] = s[i].Type
	}
	return o
}

var _ = big.NewInt
