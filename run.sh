#!/bin/bash
# run.sh <ID> [quick|thorough] — rebuild the harness against /repo's working tree (hooks on) and run one check.
# Exit code: 0 held, 1 violation (VIOLATION line printed), 2 inconclusive / harness error.
#
# The cases of a check run concurrently in one process. If that process dies (a Go runtime
# fatal error such as "concurrent map writes" cannot be recovered in-process) no verdict was
# reached: the check is run again with one case at a time (VERIF_JOBS=1), and that run decides.
# If the sequential run dies too and the crashing goroutine is inside the repository's code,
# the death itself is the violation (an input neither accepted nor rejected).
export GOFLAGS=-mod=mod GOPROXY=off GOSUMDB=off GOTOOLCHAIN=local
cd "$(dirname "$0")"
ROOT=$(pwd)
ID=$1; TIER=${2:-quick}
mkdir -p bin scratch
( cd harness && go build -tags verif -o "$ROOT/bin/vcheck" ./cmd/vcheck ) || { echo "INCONCLUSIVE build failed"; exit 2; }
LOG="$ROOT/scratch/run_${ID}_${TIER}_$$.log"
runit() { "$ROOT/bin/vcheck" run "$ID" "$TIER" 2>&1 | grep -v "^The USE_BIT_DECOMPOSITION\|^ignoring uninitialized slice" | tee "$LOG"; return ${PIPESTATUS[0]}; }
runit; code=$?
if ! grep -q '^SUMMARY\|^INCONCLUSIVE' "$LOG"; then
  RD="${VERIF_ROOT:-$ROOT}/replays/$ID"; mkdir -p "$RD"
  tail -c 200000 "$LOG" > "$RD/crash_concurrent.log"
  echo "NOTE property=$ID check process ended abnormally (exit $code) before a verdict; running it again one case at a time (log: $RD/crash_concurrent.log)"
  export VERIF_JOBS=1
  runit; code=$?
  if ! grep -q '^SUMMARY\|^INCONCLUSIVE' "$LOG"; then
    tail -c 200000 "$LOG" > "$RD/crash_sequential.log"
    # first goroutine block of the crash report: is the repository's code on it?
    if awk '/^goroutine [0-9]+ \[/{n++} n==1' "$LOG" | grep -q "example-near-light-client/"; then
      echo "VIOLATION property=$ID replay=$RD/crash_sequential.log"
      echo "  key=process_died_in_repository_code (sequential execution, exit $code)"
      rm -f "$LOG"; exit 1
    fi
    echo "INCONCLUSIVE property=$ID check process ended abnormally twice (exit $code), see $RD/crash_sequential.log"
    rm -f "$LOG"; exit 2
  fi
fi
rm -f "$LOG"
exit $code
