#!/bin/bash
# run.sh <ID> [quick|thorough] — rebuild the harness against /repo's working tree (hooks on) and run one check.
export GOFLAGS=-mod=mod GOPROXY=off GOSUMDB=off GOTOOLCHAIN=local
cd "$(dirname "$0")"
ROOT=$(pwd)
mkdir -p bin
( cd harness && go build -tags verif -o "$ROOT/bin/vcheck" ./cmd/vcheck ) || { echo "INCONCLUSIVE build failed"; exit 2; }
exec "$ROOT/bin/vcheck" run "$@" 2> >(grep -v "^The USE_BIT_DECOMPOSITION\|^ignoring uninitialized slice" >&2) | grep -v "^The USE_BIT_DECOMPOSITION\|^ignoring uninitialized slice"
