#!/bin/bash
# run.sh <ID> [quick|thorough] — rebuild the harness against /repo's working tree (hooks on) and run one check.
# Exit code: 0 held, 1 violation (VIOLATION line printed), 2 inconclusive / harness error.
export GOFLAGS=-mod=mod GOPROXY=off GOSUMDB=off GOTOOLCHAIN=local
cd "$(dirname "$0")"
ROOT=$(pwd)
mkdir -p bin
( cd harness && go build -tags verif -o "$ROOT/bin/vcheck" ./cmd/vcheck ) || { echo "INCONCLUSIVE build failed"; exit 2; }
"$ROOT/bin/vcheck" run "$@" 2>&1 | grep -v "^The USE_BIT_DECOMPOSITION\|^ignoring uninitialized slice"
exit ${PIPESTATUS[0]}
