#!/bin/bash
# tools/with_patch.sh <patch> [-R] -- <command...> : apply a patch to /repo, run, always restore.
P="$1"; shift
REV=""
if [ "$1" = "-R" ]; then REV="-R"; shift; fi
[ "$1" = "--" ] && shift
cd /repo || exit 2
if [ -n "$(git status --porcelain)" ]; then echo "repo not clean"; exit 2; fi
git apply $REV "$P" || { echo "patch does not apply"; exit 2; }
trap 'git -C /repo checkout -- . ; git -C /repo clean -fdq' EXIT
cd /verif
"$@"
