#!/bin/bash
# tools/lab_eval.sh <seed-name|patch-file|none> <VERIF_SEED> <tier> <ID> [<ID>...]
# Evaluates checks against a seeded break WITHOUT touching /repo: uses a scratch worktree of /repo
# (/tmp/lab_repo) and a copy of the harness (/tmp/lab_verif) whose go.mod points at that worktree.
# Prints one line per check. Remove /tmp/lab_* when done (tools/lab_eval.sh clean).
export GOFLAGS=-mod=mod GOPROXY=off GOSUMDB=off GOTOOLCHAIN=local
if [ "$1" = "clean" ]; then git -C /repo worktree remove --force /tmp/lab${LABNAME}_repo 2>/dev/null; rm -rf /tmp/lab${LABNAME}_verif; exit 0; fi
NAME=$1; VS=$2; TIER=$3; shift 3
LAB=/tmp/lab${LABNAME}_repo; LV=/tmp/lab${LABNAME}_verif
[ -d $LAB ] || git -C /repo worktree add -q --detach $LAB HEAD
git -C $LAB checkout -q --detach $(git -C /repo rev-parse HEAD) 2>/dev/null; git -C $LAB checkout -q -- . ; git -C $LAB clean -fdq
mkdir -p $LV; rsync -a --delete --exclude evidence --exclude replays --exclude scratch --exclude bin --exclude .git /verif/ $LV/
sed -i "s#=> /repo/gnark-plonky2-verifier#=> $LAB/gnark-plonky2-verifier#" $LV/harness/go.mod
PATCH=/verif/seeded/$NAME/patch.diff; [ -f "$NAME" ] && PATCH=$NAME
if [ "$NAME" != "none" ]; then git -C $LAB apply $PATCH || { echo "patch does not apply"; exit 2; }; fi
cd $LV
for id in "$@"; do
  out=$(VERIF_ROOT=$LV VERIF_REPO=$LAB VERIF_SEED=$VS ./run.sh $id $TIER 2>&1); code=$?
  keys=$(echo "$out" | grep "violation-key" | sed 's/^ *violation-key //' | tr '\n' ';' | cut -c1-300)
  echo "seed=$NAME vseed=$VS $id exit=$code keys=[$keys] $(echo "$out" | grep '^SUMMARY' | sed 's/.*evaluations=/evaluations=/')"
done
git -C $LAB checkout -q -- . ; git -C $LAB clean -fdq
