#!/usr/bin/env python3
"""tools/seed_eval.py <seed-dir-name> <breaks-property> <ID> [<ID>...]
Applies /verif/seeded/<name>/patch.diff to /repo, runs the quick checks of the given
properties, restores /repo, and writes /verif/seeded/<name>/meta.json (which property the
change breaks, what it needs to manifest (from notes.md), what was run and what fired)."""
import json, os, subprocess, sys, re, time
name, breaks, ids = sys.argv[1], sys.argv[2], sys.argv[3:]
d = '/verif/seeded/' + name
patch = d + '/patch.diff'
def sh(cmd, **kw): return subprocess.run(cmd, shell=True, capture_output=True, text=True, **kw)
LAB = os.environ.get('LABNAME')
results = []
if LAB is not None:
    # isolated evaluation: scratch worktree + harness copy (tools/lab_eval.sh), /repo untouched
    for cid in ids:
        t0 = time.time()
        r = sh('LABNAME=%s /verif/tools/lab_eval.sh %s %s %s %s' % (LAB, name, os.environ.get('VERIF_SEED', '1'), os.environ.get('TIER', 'quick'), cid))
        m = re.search(r'exit=(\d+) keys=\[(.*?)\] (.*)', r.stdout)
        if not m:
            print('lab run failed:', r.stdout[-500:], r.stderr[-500:]); sys.exit(2)
        keys = [k.strip() for k in m.group(2).split(';') if k.strip()]
        results.append({'check': cid, 'tier': os.environ.get('TIER', 'quick'), 'exit': int(m.group(1)), 'violation_keys': keys,
                        'summary': 'SUMMARY ' + m.group(3), 'wall_s': round(time.time() - t0, 1)})
        print(cid, 'exit', m.group(1), keys[:6])
else:
    if sh('git -C /repo status --porcelain').stdout.strip():
        print('repo not clean'); sys.exit(2)
    if sh('git -C /repo apply ' + patch).returncode != 0:
        print('patch does not apply'); sys.exit(2)
    try:
        os.makedirs('/verif/scratch/seedrun', exist_ok=True)
        sh('cp /verif/known_findings.json /verif/scratch/seedrun/')
        for cid in ids:
            t0 = time.time()
            r = sh('cd /verif && VERIF_ROOT=/verif/scratch/seedrun ./run.sh %s %s' % (cid, os.environ.get('TIER', 'quick')))
            keys = re.findall(r'violation-key (.*)', r.stdout)
            summ = re.findall(r'^SUMMARY.*', r.stdout, re.M)
            results.append({'check': cid, 'tier': os.environ.get('TIER', 'quick'), 'exit': r.returncode, 'violation_keys': [k.strip() for k in keys],
                            'summary': summ[0] if summ else '', 'wall_s': round(time.time() - t0, 1)})
            print(cid, 'exit', r.returncode, keys[:6])
    finally:
        sh('git -C /repo checkout -- . ; git -C /repo clean -fdq')
notes = open(d + '/notes.md').read() if os.path.exists(d + '/notes.md') else ''
meta_path = d + '/meta.json'
meta = json.load(open(meta_path)) if os.path.exists(meta_path) else {}
meta.update({
    'seed': name,
    'breaks_property': breaks,
    'origin': meta.get('origin', 'sub-agent given only the property text and a scratch worktree'),
    'needs_to_manifest': meta.get('needs_to_manifest') or notes[:1500],
    'confirmed': open(d + '/confirm.log').read().strip().splitlines()[-2:] if os.path.exists(d + '/confirm.log') else [],
    'demonstration': [f for f in os.listdir(d) if f.endswith('_test.go') or os.path.isdir(d + '/' + f)],
})
prev = {r['check']: r for r in meta.get('checks_run', [])}
for r in results: prev[r['check']] = r
meta['checks_run'] = list(prev.values())
meta['caught_by'] = sorted(r['check'] for r in meta['checks_run'] if r['exit'] == 1)
json.dump(meta, open(meta_path, 'w'), indent=1)
print('caught_by', meta['caught_by'])
