#!/bin/bash
# tools/confirm_seed.sh <PROP> <k> : confirm a sub-agent seed in its scratch worktree /tmp/wt_<PROP>:
#   demo passes on HEAD, patch applies and builds, demo fails with the patch, the 12 baseline tests pass with the patch.
# On success copies the seed to /verif/seeded/<PROP>-<k>/ (patch.diff, demo, notes.md, confirm.log).
export GOFLAGS=-mod=mod GOPROXY=off GOSUMDB=off GOTOOLCHAIN=local
P=$1; K=$2
# optional: WTPREFIX (default /tmp/wt_) and OUTK (name suffix of the kept seed, default K)
WT=${WTPREFIX:-/tmp/wt_}$P
OUTK=${OUTK:-$K}
S=$WT/_seed
M=$WT/gnark-plonky2-verifier
LOG=/tmp/confirm_${P}_$K.log
: > $LOG
cd $WT || exit 2
git checkout -q -- . ; rm -f $M/tests/seed_*_demo_test.go
DEMO=$(ls $S/seed_${K}_demo_test.go 2>/dev/null)
if [ -z "$DEMO" ]; then echo "no demo test file for $P/$K (program dir demos need manual handling)" | tee -a $LOG; exit 3; fi
cp $DEMO $M/tests/
RUNPAT=$(grep -o "^func Test[A-Za-z0-9_]*" $DEMO | sed 's/func //' | paste -sd'|')
demo() { (cd $M && go test -tags verif -vet=off -count=1 -timeout 20m -run "^($RUNPAT)\$" ./tests/ >> $LOG 2>&1); }
echo "== demo on HEAD ($RUNPAT)" >> $LOG
demo; r1=$?
git apply $S/seed_$K.diff >> $LOG 2>&1 || { echo "patch does not apply" | tee -a $LOG; exit 4; }
(cd $M && go build ./... >> $LOG 2>&1); rb=$?
echo "== demo with patch" >> $LOG
demo; r2=$?
echo "== baseline tests with patch" >> $LOG
rm -f $M/tests/seed_*_demo_test.go
(cd $M && go test -vet=off -count=1 -timeout 25m -run 'TestGoldilocks|TestPoseidon|TestRead|TestDeserialize|TestBlockFri|TestPlonk' ./tests/ >> $LOG 2>&1); r3=$?
git checkout -q -- . ; git clean -fdq -e _seed
echo "RESULT $P/$K demo_on_head_exit=$r1 build_exit=$rb demo_with_patch_exit=$r2 baseline_with_patch_exit=$r3" | tee -a $LOG
if [ $r1 -eq 0 ] && [ $rb -eq 0 ] && [ $r2 -ne 0 ] && [ $r3 -eq 0 ]; then
  D=/verif/seeded/$P-$OUTK; mkdir -p $D
  cp $S/seed_$K.diff $D/patch.diff; cp $DEMO $D/; cp $S/seed_$K.md $D/notes.md; tail -5 $LOG > $D/confirm.log
  echo CONFIRMED
  exit 0
fi
echo NOT-CONFIRMED
exit 1
