#!/bin/bash
# tools/try_seed.sh <patch.diff> <ID> [<ID>...] : apply a seeded break to /repo, run the quick
# checks of the given properties, restore /repo. Prints one line per check:  <ID> exit=<code> <violation keys>
P="$1"; shift
cd /repo || exit 2
if [ -n "$(git status --porcelain)" ]; then echo "repo not clean"; exit 2; fi
git apply "$P" || { echo "patch does not apply"; exit 2; }
trap 'git -C /repo checkout -- . ; git -C /repo clean -fdq' EXIT
cd /verif
export VERIF_ROOT=/verif/scratch/seedrun
mkdir -p $VERIF_ROOT && cp /verif/known_findings.json $VERIF_ROOT/
for id in "$@"; do
  out=$(VERIF_TIER=${TIER:-quick} ./run.sh $id ${TIER:-quick} 2>&1)
  code=$?
  keys=$(echo "$out" | grep "violation-key" | sed 's/^ *violation-key //' | tr '\n' ';')
  inc=$(echo "$out" | grep -c "^INCONCLUSIVE")
  summ=$(echo "$out" | grep "^SUMMARY" | sed 's/.*evaluations=/evaluations=/')
  echo "$id exit=$code inconclusive_lines=$inc keys=[$keys] $summ"
done
