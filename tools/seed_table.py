#!/usr/bin/env python3
"""Prints the markdown table of seeded breaks (DESIGN.md §7) from /verif/seeded/*/meta.json."""
import json, glob, os
ONE = {
 'C02-3': ('`checkCollected` flushes with the table base width instead of each check\'s width', 'commit mechanism only: every valid proof rejected'),
 'C02-4': ('deferred `checkCollected` registered for the native mechanism too (its guard panics)', 'natively range-checking builder only'),
 'C03-3': ('limb check folded into the packing loop with the outer index (`slicePub[j]`)', 'forged limb at index i with i%4 != i/4'),
 'C03-4': ('bit-decomposition checker with unconstrained outputs', 'bit-decomposition mechanism + forged `nBits` hint for limb + p'),
 'C04-3': ('query-index decomposition with unconstrained outputs (bits above the LDE size free)', 'compiled system / forged `nBits`: a round\'s openings reused for another challenge, hiding a changed selected cap entry'),
 'C04-4': ('parsed verifier data cached per circuit digest in the deserializer', 'second document with the same digest and another cap read in the same process'),
 'C07-3': ('`cLimbCopy` copies removed in `MulAdd` / `MulAddNoReduce`', 'compiled R1CS only (builder mutates MulAcc\'s first argument): Add(x,x), MulAdd(x,k,x), an addend used twice'),
 'C07-4': ('bit-decomposition checker with unconstrained outputs', 'bit-decomposition mechanism + forged `nBits`'),
 'C08-3': ('`InverseExtension` negates with native `MODULUS - x`', 'operand with second coordinate exactly 0 (result coordinate p instead of 0)'),
 'C08-4': ('`ExpExtension` memoised per chip, keyed by exponent only', 'two calls with the same exponent >= 3 and different bases on one chip'),
 'C09-3': ('sponge squeeze reads the full width (12) instead of the rate (8)', 'more than 8 outputs requested'),
 'C09-4': ('`ReduceHint` fast path returns (0, x) for any 64-bit x', 'non-canonical 64-bit hash input (value + p with value < 2^32-1)'),
 'C10-3': ('`HashNoPad` slot count `len/3+1` for the last rate chunk', 'input length > 9 with length mod 9 in {3, 6}'),
 'C10-4': ('package-level `*big.Int` 2^64 mutated by `big.Int.Mul` in the `HashOrNoop` shortcut', 'a 2- or 3-element leaf hashed first, any later hashing in the same process'),
 'C11-3': ('`GetChallenge` permutes again as soon as the output buffer empties', 'challenges drawn since the last permutation a multiple of 8, then an observation (num_challenges = 4)'),
 'C11-4': ('challenger created once and stored in `VerifierChip`', 'second `GetChallenges` / `Verify` on the same chip'),
 'C12-3': ('query-index decomposition with unconstrained outputs', 'forged `nBits`: leaf index / cap slot chosen by the prover'),
 'C12-4': ('short-leaf digest packed in reversed element order', 'leaf width exactly 2 or 3'),
 'C14-3': ('bit-decomposition checker with unconstrained outputs', 'bit-decomposition mechanism + forged `nBits` for the PoW response'),
 'C14-4': ('FRI chip cached per api object (second `NewChip` returns the first chip)', 'two verifier chips with different `proof_of_work_bits` in one circuit, the weaker first'),
 'C15-3': ('coset gate `numIntermediates = (numPoints - degree)/(degree-1)`', '(2^bits - degree) % (degree-1) != 0, e.g. (3,4), (4,5)'),
 'C15-4': ('BaseSum range product uses `k - limb`', 'odd base on non-honest rows'),
 'C17-3': ('canonicity sweep moved out of `Verify` into `VerifierCircuit.Define` only', '`CircuitFixed` (the deployed wrapper) no longer range-checks the proof'),
 'C17-4': ('bit-decomposition checker with unconstrained outputs', 'Plain face + forged `nBits` and limbs'),
 'C18-3': ('`_phantom` text stripped before matching (unanchored regexes)', '`U32ArithmeticGate { num_ops: N, _phantom: … }` bound to `ArithmeticGate`'),
 'C18-4': ('hiding refusal tests a field that is never copied', 'common data with `fri_params.hiding = true`'),
 'C19-3': ('64-bit words reduced modulo p while reading', 'document values in [p, 2^64)'),
 'C19-4': ('type errors inside the leaf list of a `[leaf, {siblings}]` pair are lost', 'malformed value inside an initial-tree leaf list'),
 'C20-3': ('leaf-width check relaxed to a salt window for every blinding oracle', 'zero appended to a blinded oracle leaf whose width is not a multiple of 3'),
 'C20-4': ('eval-proof count no longer compared (two loops rewritten)', 'surplus `EvalsProofs` entries in a query round'),
 'C01-3': ('selector filter loops over the gate list and clamps the group range to it', 'description whose last selector group end exceeds the number of gates'),
 'C01-4': ('commit-mode range-check widths rounded up to a multiple of 16', 'description with proof_of_work_bits 19..31 (not a multiple of 16), commit mechanism only'),
 'C05-3': ('`Inverse`: hasInv derived from the prover-supplied inverse', 'dishonest `InverseHint` returning exactly 0 for a non-zero operand'),
 'C05-4': ('`RangeCheck` under the commit checker collects the 64-bit value instead of its two limbs', 'commit mechanism only, forged limbs (0, x), true remainder < 2^32-1'),
 'C05-5': ('off-by-one in a single-word fast path of `ReduceHint` (`x > m`)', 'Reduce input exactly p (honest prover rejected)'),
 'C06-3': ('native checks collected like commit checks but never emitted', 'natively range-checking builder only'),
 'C06-4': ('`RangeCheckWithMaxBits` returns early for widths >= 64', 'widths 64, 96, 144, 192 with a value >= 2^n'),
 'C13-3': ('domain generator cached in a package-level sync.Once (not keyed by nLog)', 'two different LDE sizes in one process'),
 'C13-4': ('`InverseExtension` stops asserting non-zero AND `friCombineInitial` drops its hasInv assertion (two sites)', 'opening point equal to the query domain point'),
 'C16-3': ('number of asserted rounds derived from `max_quotient_degree_factor`', 'quotient_degree_factor != max_quotient_degree_factor'),
 'C16-4': ('`k_i*zeta` cached on the PlonkChip after the first call', 'one chip verifying two opening sets with different zeta'),
 'C01-1': ('Merkle check skipped when a proof has fewer siblings than cap_height (last commit layer: 3 siblings)', 'tamper one of the 84 `Steps[1].MerkleProof.Siblings`'),
 'C01-2': ('first coset shift hard-wired to 1 (`k_is[0]` never read)', 'circuit description differing in `k_is[0]` only'),
 'C02-1': ('`Reduce` quotient width 130 bits for non-commit backends', 'honest proofs whose FRI combination has a 131-bit quotient (test.json k>=1, circuit B k>=4), native/plain only'),
 'C02-2': ('sponge zero-fills the rate on a short last chunk', 'public-input count > 8 and not a multiple of 8 (circuit B: 97)'),
 'C03-1': ('16 limb checks replaced by four 128-bit checks of the packed values', 'low-order limb + k*p with the packed value still < 2^128'),
 'C03-2': ('`checkCollected` drops the last collected range check', 'commit checker only; limb 15 + p'),
 'C04-1': ('initial-tree loop starts at oracle 1: constants/sigmas never authenticated', 'key differing in a cap entry some query selects'),
 'C04-2': ('cap lookup rewritten with a loop that never compares entry 15', 'key differing in cap entry 15 (selected by rounds 3, 17, 23)'),
 'C05-1': ('`ReduceWithMaxBits`: remainder only 64-bit checked, not canonical', 'dishonest prover, true remainder < 2^32-1 (prob. 2^-32 on random data): (q-1, rem+p)'),
 'C05-2': ('bit-decomposition checker built with unconstrained outputs (no booleanity)', 'bit-decomposition mechanism only + forged gnark `nBits` hint'),
 'C06-1': ('commit checker rounds widths up to a multiple of 16 (alignment panic can no longer fire)', 'commit mechanism, width not multiple of 16, value in [2^n, 2^ceil16(n))'),
 'C06-2': ('off-by-one in the "top limb all ones" rule (`hi == 2^32`)', 'value in [p, 2^64) with adversarial limbs (honest hint refuses)'),
 'C07-1': ('`Inverse`: product check selected by `isZero` instead of `hasInv`', 'operand exactly 0 (and x*inv==1 silently unenforced otherwise)'),
 'C07-2': ('off-by-one in a fast path added to `MulAddHint` (`<= p`)', 'a*b+c == p exactly (e.g. Add(1,p-1)); only with the repository\'s own hint function'),
 'C08-1': ('`InverseExtension` no longer asserts a non-zero operand', 'operand exactly (0,0)'),
 'C08-2': ('`InnerProductExtension` applies the scalar once at the end', 'constant != 1 and starting accumulator != 0 together (no in-tree caller)'),
 'C09-1': ('sponge zero-fills the rate on a short last chunk', 'input length > 8 and not a multiple of 8'),
 'C09-2': ('second S-box reduction back to a 192-bit quotient', 'adversarial `ReduceHint` at an x^7 reduction (wrapped quotient)'),
 'C10-1': ('`HashOrNoop` shortcut widened to 4 elements', 'leaf of exactly 4 elements'),
 'C10-2': ('`ToVec` bit decomposition without the modulus check', 'compiled system, forged `nBits` hint, hash < 2^254 - r (alias h+r)'),
 'C11-1': ('`GetExtensionChallenge` refills when fewer than two outputs remain', 'extension challenge with exactly one unused output (7 mod 8 challenges drawn)'),
 'C11-2': ('extension element appended in one go + absorb loop clamped to 8', 'extension element observed with 7 elements pending: second limb silently dropped'),
 'C12-1': ('`HashNoPad` absorb loop bound `len-1`', 'leaf widths = 1 mod 9 (10, 19, ..., 136)'),
 'C12-2': ('Merkle gadget returns early when there are no siblings', 'tree height 4 (leaf layer = cap layer)'),
 'C13-1': ('final check compares only the first GF(p^2) coordinate (copy-paste)', 'mismatch only in the second coordinate of the final evaluation'),
 'C13-2': ('`ExpExtension` tests `exponent&(1<<i) == 1`', 'alpha shift for a later batch of >= 3 polynomials (num_challenges >= 3)'),
 'C14-1': ('PoW width rounded up to a multiple of 16', 'difficulty not a multiple of 16'),
 'C14-2': ('`AssertIsLessOrEqual(resp, 2^(64-b))` off by one', 'response exactly 2^(64-b)'),
 'C15-1': ('selector filter skipped for a gate alone in its group', 'more than one selector group and a group with exactly one gate'),
 'C15-2': ('RandomAccessGate bit-wire stride uses `numCopies`', 'bits != num_copies and num_copies >= 2'),
 'C16-1': ('clamped last chunk ends at `len-1`', 'routed wires mod degree factor >= 2'),
 'C16-2': ('accumulator list appended onto a sub-slice of the Z openings (aliasing)', '>= 2 challenge rounds and num_partial_products < num_challenges'),
 'C17-1': ('range-check sweep rewritten over `ToOpenings(...).Batches[0]`: `PlonkZsNext` dropped', '4 positions of ~10.9k; k in {1,2,2^64} accepted with stock hints'),
 'C17-2': ('PoW witness no longer range-checked', 'exactly one position of the proof'),
 'C18-1': ('RandomAccessGate `bits` and `num_copies` swapped at construction', 'identifiers with bits != num_copies'),
 'C18-2': ('CosetInterpolationGate regex captures any `<D=n>` and never compares it', 'coset identifiers with D != 2'),
 'C19-1': ('hash strings parsed with base auto-detection (`SetString(s, 0)`)', 'sibling / commit-cap strings with 0x/0b/0o prefix, underscores or a leading zero'),
 'C19-2': ('`fri_params.config.proof_of_work_bits` copied from `config.fri_config`', 'documents whose two FRI config blocks disagree'),
 'C20-1': ('round-count check compares against the challenger\'s index count; loop over the round proofs', 'proof with fewer (even zero) query rounds than configured'),
 'C20-2': ('`len(steps) != ...` weakened to `<`', 'a round carrying more fold steps than prescribed'),
}
rows = []
for d in sorted(glob.glob('/verif/seeded/*/')):
    name = os.path.basename(d.rstrip('/'))
    mp = d + 'meta.json'
    if not os.path.exists(mp): continue
    m = json.load(open(mp))
    what, needs = ONE.get(name, ('', ''))
    keys = []
    for c in m.get('checks_run', []):
        if c['exit'] == 1:
            ks = sorted(set(k.split(' x')[0] for k in c['violation_keys']))
            keys.append('%s: %s' % (c['check'], ', '.join('`%s`' % k for k in ks[:3]) + (' …' if len(ks) > 3 else '')))
    missed = [c['check'] for c in m.get('checks_run', []) if c['exit'] == 0]
    rows.append('| %s | %s | %s | %s | %s |' % (name, m['breaks_property'], what, needs, '; '.join(keys) + ((' (silent: %s)' % ', '.join(missed)) if missed else '')))
print('| seed | property | change | needs to manifest | checks that fire (quick tier) |')
print('|------|----------|--------|-------------------|-------------------------------|')
print('\n'.join(rows))
