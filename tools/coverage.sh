#!/bin/bash
# tools/coverage.sh [tier] — which statements of the repository's verifier packages do the
# workloads reach? Builds the harness with Go's coverage instrumentation for the repository's
# packages, runs every check of the tier (default quick) with evidence redirected to scratch/,
# and prints the per-package statement coverage and every block that no workload executed.
export GOFLAGS=-mod=mod GOPROXY=off GOSUMDB=off GOTOOLCHAIN=local
cd "$(dirname "$0")/.."; ROOT=$(pwd); TIER=${1:-quick}
COV=$ROOT/scratch/cov; CR=$ROOT/scratch/covroot
mkdir -p $COV $CR; find $COV -type f -delete; cp known_findings.json $CR/
( cd harness && PK=$(go list -tags verif -deps ./cmd/vcheck | grep example-near-light-client | paste -sd,) && \
  go build -cover -coverpkg=./...,$PK -tags verif -o $ROOT/scratch/vcheck-cover ./cmd/vcheck ) || exit 2
for c in $(seq -w 1 20); do
  GOCOVERDIR=$COV VERIF_ROOT=$CR $ROOT/scratch/vcheck-cover run C$c $TIER 2>&1 | grep "^SUMMARY\|VIOLATION\|INCONCLUSIVE" | cut -c1-140
done
cd harness
echo "== statement coverage of the repository's packages reached by the $TIER workloads"
go tool covdata percent -i=$COV | grep example-near-light-client | sed 's#github.com/wormhole-foundation/example-near-light-client/##'
echo "== blocks never executed (file:startline.col,endline.col)"
go tool covdata textfmt -i=$COV -o $ROOT/scratch/cov.txt
grep example-near-light-client $ROOT/scratch/cov.txt | awk '$NF==0{print $1}' | sed 's#github.com/wormhole-foundation/example-near-light-client/##'
