#!/usr/bin/env python3
"""Replaces the per-seed table of DESIGN.md §7 (between the seedtable markers) with the
output of tools/seed_table.py."""
import subprocess, re, os
root = os.path.dirname(os.path.dirname(os.path.abspath(__file__)))
tbl = subprocess.check_output(['python3', os.path.join(root, 'tools/seed_table.py')], text=True).rstrip('\n')
p = os.path.join(root, 'DESIGN.md')
s = open(p).read()
b, e = '<!-- seedtable:begin -->', '<!-- seedtable:end -->'
if b not in s:
    # first use: the table starts at the header row after "Checks that catch each kept seed"
    m = re.search(r'(Checks that catch each kept seed[^\n]*\n\n)(\| seed \|.*?\n)(\n)', s, re.S)
    s = s[:m.start(2)] + b + '\n' + tbl + '\n' + e + '\n' + s[m.end(2):]
else:
    s = re.sub(re.escape(b) + r'.*?' + re.escape(e), lambda _: b + '\n' + tbl + '\n' + e, s, flags=re.S)
open(p, 'w').write(s)
print('rows', tbl.count('\n') - 1)
