#!/usr/bin/env python3
"""Generates /verif/MANIFEST.json from the table below (single source of truth)."""
import json, subprocess, os
ROOT = os.path.dirname(os.path.dirname(os.path.abspath(__file__)))

CHECKS = {

 "C08": ("exploration", "differential runtime monitoring of extension-field / algebra gadget outputs against a native GF(p^2) reference (engine faces + compiled R1CS/SCS solver sample)",
         "Every exported extension and algebra method of the chip is executed on edge-coordinate and random operand tuples (exponents up to 2^20 and random 64-bit, lists up to 300, interpolation on 1..16 points) and compared with the reference; inversion/division of zero must be rejected; a compiled R1CS/SCS sample must accept the reference outputs and reject perturbed ones.",
         "Trusts ref/gl.go; operands edge+random.", "§3/C08"),
 "C09": ("exploration", "differential runtime monitoring against a naive reference Poseidon + hint-substitution adversary inside the permutation (engine and real R1CS solver with OverrideHint)",
         "Permutation, HashNoPad (incl. non-canonical v+k*p inputs) and HashNToMNoPad outputs are compared with a naive Poseidon independent of the fast-round tables; 'is a function' is decided by substituting alternative hint outputs at random hint calls inside the permutation (must be refused by the site's own constraints) and by replaying wrapped quotients on a compiled R1CS circuit where any accepted output other than the reference output is a violation.",
         "Reference round constants are a frozen copy validated by the plonky2 zero-state and public-input-hash vectors.", "§3/C09"),
 "C10": ("exploration", "differential runtime monitoring against a PoseidonBN128 reference ported from the Rust crate (own constants) + injectivity pairs + alias attack on compiled ToVec",
         "BN254 permutation, sponge, short-input shortcut, two-to-one and ToVec are compared with the reference on edge and random inputs (lengths 0..30); packing / chunking injectivity is checked on generated pairs; on compiled R1CS/SCS the full-width bit decomposition in ToVec is attacked with the bits of h+r and must be rejected.",
         "Injectivity is sampled, not proved.", "§3/C10"),
 "C11": ("exploration", "sequential history replay: observe/squeeze histories executed on the real challenger chip and checked value-by-value against an executable duplex-sponge model; transcript comparison and influence monitoring on real and random proofs; the same gadget compiled with gnark's real R1CS / SCS builders and solved with the real solver (reference outputs must be accepted, changed ones refused)",
         "Random and forced (rate boundary, observe-after-squeeze, empty buffer) histories of length 0..200 are executed on the real chip and every squeezed value compared with the native challenger; GetChallenges on real / random transcripts is compared with the reference transcript; changing an observed value must leave earlier challenges unchanged and change every later one.",
         "Exact replay against a deterministic sequential model (stronger than a linearizability search; the object is used sequentially).", "§3/C11"),
 "C12": ("exploration", "runtime monitoring of the Merkle gadget (verif hook) on synthetic trees with an iff oracle computed by the reference hash; the same gadget compiled with gnark's real R1CS / SCS builders and solved with the real solver (reference outputs must be accepted, changed ones refused)",
         "Trees of height 4..12 over leaves of width 1..140 are built with the reference; every leaf index of small trees and seeded indices of large ones are opened, with none / each single corruption (leaf, sibling, index bit, cap bit, selected / unselected cap entry, swapped order, wrong slot); the gadget must accept exactly when the reference fold equals the selected cap entry.",
         "Cap height fixed to 4 as the gadget requires.", "§3/C12"),
 "C13": ("exploration", "differential runtime monitoring of FRI sub-gadgets (verif hooks) and of verifyQueryRound on synthetic FRI instances produced by a reference mini-prover, with single-corruption verdict comparison; the same gadget compiled with gnark's real R1CS / SCS builders and solved with the real solver (reference outputs must be accepted, changed ones refused)",
         "Domain points, initial combination, coset folding at every within-coset position and final evaluation are compared with the reference; whole query rounds on synthetic instances (degree bits 5..13, rate 1..3, 1..3 steps) must be accepted for every within-coset bit pattern and each single corruption must give the reference round verifier's verdict.",
         "Degenerate challenges (beta on a coset point, domain point equal to an opening point) are not generated.", "§3/C13"),
 "C14": ("exploration", "runtime accept-set monitoring of the proof-of-work gadget under every range-check configuration + witness substitution through the whole circuit with the reference as monitor",
         "assertLeadingZeros is executed for difficulties 1..63 on boundary and random responses under native / plain / env-forced bit decomposition / commit (unaligned widths must be refused); substituted witnesses on real proofs must yield the reference's response and be rejected unless the reference accepts.",
         "Responses explored are boundary+random.", "§3/C14"),
 "C15": ("exploration", "differential runtime monitoring of gate evaluators instantiated from generated identifiers against reference gate polynomials on random and reference-generated honest rows; selector filtering on random layouts; the same gadget compiled with gnark's real R1CS / SCS builders and solved with the real solver (reference outputs must be accepted, changed ones refused)",
         "For every supported gate type over the parameter grid, EvalUnfiltered on random rows must equal the reference vector (length and order) and vanish on honest rows; EvaluateGateConstraints on random gate sets / selector groups / selector values must equal the position-wise sum of filter*constraints.",
         "Reference gates validated by accepting the real proofs and by vanishing on honest rows.", "§3/C15"),
 "C16": ("exploration", "runtime monitoring of PlonkChip.Verify on real and synthetic shapes with reference-solved quotient openings (must accept, vanishing values compared) and single perturbations (must reject); the same gadget compiled with gnark's real R1CS / SCS builders and solved with the real solver (reference outputs must be accepted, changed ones refused)",
         "Random openings/challenges with the quotient solved by the reference are executed on the real shape and on synthetic shapes (1..3 challenge rounds, 2..80 routed wires, degree factor 1..8 incl. non-dividing factors); every single perturbation of an opening or challenge that breaks the identity per the reference must be rejected.",
         "zeta=1 / Z_H(zeta)=0 not generated.", "§3/C16"),
 "C18": ("exploration", "repeated resolution of generated identifier strings (map-iteration schedules) with a reference parser as oracle, plus a race-detector build running 16 goroutines",
         "Each supported / unsupported / malformed identifier is resolved >=200 (thorough >=2000) times and from 16 goroutines under the Go race detector; supported ones must always yield the stated type and numbers, unsupported ones must always panic; hiding=true documents must be refused.",
         "Type and numbers are read back from Gate.Id(); behaviour of resolved gates is C15.", "§3/C18"),
 "C19": ("exploration", "differential runtime monitoring: generated documents read by the repository's readers and compared position by position with the generator's expectation, witness vector comparison, malformed-value refusal; request-body readers in sequences; readers used from 12 goroutines under the Go race detector",
         "Random-shape proof / verifier-data / common-data documents are written, read with the repository's readers and compared leaf by leaf (count, order, value; hashes as residues) and through frontend.NewWitness; listed malformations must be refused at read or witness time.",
         "Documents are generated by the harness; unlisted malformations (signed decimal strings, null) are reported only.", "§3/C19"),

 "C01": ("exploration", "runtime monitoring: single-leaf tampering of accepted instances executed on the real circuit code in a monitoring evaluation engine (whole circuit + isolated query rounds, cross-checked), reference verifier as monitor; whole 28-round verifier compiled with gnark's real builders, honest and tampered witnesses solved with the real solver",
         "Every kind of leaf of proof / public inputs / digest is perturbed (+1, -1, random, swap, zero) on real accepted proofs and the repository's Define code is executed; the verdict must be REJECT/REFUSE. Query-round leaves are decided by running the repository's verifyQueryRound for that round alone with the recorded transcript; the decomposition is monitored at every round index by whole-circuit runs. Circuit-description changes are judged when the independent reference rejects. Thorough enumerates every leaf position of all five proofs.",
         "Engine stands in for compiled constraint systems on whole-verifier runs (agreement with gnark's engine sampled in C02); soundness against proofs of maliciously built circuits is out of reach (no plonky2 prover offline).", "§3/C01"),
 "C02": ("exploration", "runtime monitoring of honest executions under every range-check configuration (engine faces + env-var child process + gnark test engine agreement) and shadow honest-bound monitor; whole verifier and fixed wrapper compiled with gnark's R1CS and SCS builders and solved; commitment-based mechanism over every circuit size",
         "All real proofs and their k-round prefix restrictions are executed through VerifierCircuit and CircuitFixed under the native, commit, bit-decomposition and env-forced configurations with the repository's own hint functions; all must be accepted; gnark's own test engine must agree; the shadow monitor requires every quotient's data-independent honest bound to fit its enforced width.",
         "Honest proofs are limited to the five shipped proofs of two inner circuits and their restrictions.", "§3/C02"),
 "C03": ("exploration", "runtime monitoring of CircuitFixed on forged limb assignments (limb + k*p, borrow shifts, random) + shadow wrap-freedom of the packing equality; the wrapper compiled with a real builder and solved on honest and forged assignments",
         "CircuitFixed.Define is executed on the real circuit-A proofs with forged limb assignments and recomputed / truncated / perturbed public values; ACCEPT only for the true limbs and their packing; the shadow monitor checks the packing equality is wrap-free under the enforced limb bounds.",
         "Solidity side (128-bit truncation) not executable offline; recorded as the reason V < 2^128 matters.", "§3/C03"),
 "C04": ("exploration", "runtime monitoring of wrappers instantiated from a template with a differing proving-time verifier key (every key element perturbed, unselected cap entries computed from the recorded query indices)",
         "Define of both wrappers is run on the template's constants with assignments whose verifier key differs (each of 17 elements +1/random/zero, other circuit's key/digest/cap, random key, all unselected cap entries). Verdict must not be ACCEPT. The unselected-cap-entry acceptances are a genuine defect listed in known_findings.json (KNOWN-FINDING lines).",
         "Keys explored are perturbations of the real keys and the other real circuit's key.", "§3/C04"),
 "C05": ("fault_enumeration", "shadow integer-bound monitor (data-independent interval sanitizer run to a fixpoint over executions of the real circuit) + hint-substitution adversary at every static hint site with in-scope rejection oracle + real R1CS solver replays (solver.OverrideHint)",
         "Fault model: a prover substituting hint outputs at one call. Every static hint call chain of the verifier is enumerated from a recorded execution; alternative families (wrapped division, shifted quotient/remainder, field-solved quotient, limb borrow/carry, inverse variants) are injected at first/random/last dynamic instances and must be refused by the site's own constraints; the shadow monitor decides wrap-freedom of every MulAdd/Reduce/RangeCheck equality for all operand values within the enforced bounds.",
         "Shadow monitor treats range-checked values as < 2^64 and does not cover the Commit face (deferred checks); families are finite.", "§3/C05"),
 "C17": ("exploration", "runtime monitoring: every Goldilocks-typed proof leaf offset by k*p executed through the real circuit under honest-with-fallback and adversarial limb hints",
         "Each Goldilocks-valued leaf of real proofs is replaced by value + k*p (k in {1,2,2^64,max}) and the whole circuit is executed under Native / Plain (and sampled Commit) faces with the honest hint (which refuses) replaced by a total fallback and by adversarial limb candidates; verdict must be REJECT. Thorough enumerates every position of all five proofs.",
         "Public inputs excluded (the circuit deliberately reduces them).", "§3/C17"),
 "C20": ("exploration", "runtime monitoring: reflection-driven list mutations and configuration edits executed through the real circuit",
         "Every list kind of the proof structure is mutated (drop first/last, duplicate last, append zero, empty) and shape-prescribing configuration fields are edited against the unchanged proof; Define must panic/refuse or reject, never accept.",
         "Configuration edits are limited to fields that prescribe shape / number of checks (see DESIGN.md §6 for the false-alarm correction).", "§3/C20"),
 # id: (level, technique, text, note, design_ref)
 "C06": ("exploration", "runtime accept-set monitoring of single-gadget circuits on compiled R1CS/SCS systems (real solver, hint overrides) and on the monitoring engine, per range-check mechanism; mid-size circuits under the commitment-based mechanism; race-detector build for the shared chip cache",
         "Accept-sets of RangeCheck / RangeCheckWithMaxBits(n) are observed, existentially over honest and adversarial hint outputs, on gnark's real R1CS and SCS solvers and on the evaluation engine, for the native / commit / bit-decomposition mechanisms, and compared with the exact ranges on boundary and random values; held on the executions listed in the evidence.",
         "Native range-checking builder is emulated (wrapper around real builders + engine face); commitment hints replaced by a hash; values explored are boundary+random, not all field elements.", "§3/C06"),
 "C07": ("exploration", "differential runtime monitoring of gadget outputs against a native reference (engine faces + compiled R1CS/SCS solver sample)",
         "All 10 base-field gadget outputs are executed for every triple over the structured edge values and seeded random triples under the native, bit-decomposition and commit mechanisms and compared with native Goldilocks arithmetic; a sample is re-solved on really compiled R1CS/SCS systems which must accept the engine's outputs and reject a perturbed one.",
         "Trusts ref/gl.go (validated by identities); operands are edge+random, not exhaustive.", "§3/C07"),
}

props = [json.loads(l) for l in open(os.path.join(ROOT, 'properties.jsonl'))]
checks, na = [], []
for p in props:
    pid = p['id']
    if pid in CHECKS:
        lvl, tech, text, note, ref = CHECKS[pid]
        checks.append({
            "property_id": pid,
            "quick_cmd": "./run.sh %s quick" % pid,
            "thorough_cmd": "./run.sh %s thorough" % pid,
            "evidence_file": "/verif/evidence/%s.json" % pid,
            "replay_cmd_template": "./bin/vcheck replay {path}",
            "engine": "vcheck",
            "level_claimed": {"category": lvl, "text": text, "design_ref": ref},
            "level_note": note,
            "technique": tech,
        })
    else:
        na.append({"property_id": pid, "reason": "check not built yet in this session (planned in DESIGN.md §3/%s); not claimed until it runs" % pid})
m = {
 "version": 1,
 "setup_cmd": "./setup.sh",
 "hooks": {
   "guard": "verif",
   "enable": "go build -tags verif (harness module replaces the repository module by /repo/gnark-plonky2-verifier)",
   "baseline_off_cmd": "cd /repo/gnark-plonky2-verifier && GOFLAGS=-mod=mod GOPROXY=off GOSUMDB=off GOTOOLCHAIN=local go test -vet=off -count=1 -timeout 25m ./...",
   "source_commits": subprocess.check_output(['git','-C','/repo','log','--format=%h %s','309d412..HEAD']).decode().strip().split('\n'),
   "add_only": True,
 },
 "engines": [{"name": "vcheck", "path": "/verif/harness", "serves_properties": sorted(CHECKS), "kind_free_text": "Go harness: monitoring evaluation engine (gnark frontend.API implementation with assertion/range-check/hint event stream, hint adversary, shadow integer-bound monitor), native plonky2 reference, real gnark R1CS/SCS solvers for gadget circuits, race detector workloads"}],
 "checks": checks,
 "not_applicable": na,
 "notes": "Exit codes: 0 held on everything explored, 1 violation (VIOLATION line), 2 inconclusive/harness error (never with a VIOLATION line). known_findings.json lists fixed/known defects.",
}
json.dump(m, open(os.path.join(ROOT, 'MANIFEST.json'), 'w'), indent=1)
print("manifest: %d checks, %d not_applicable" % (len(checks), len(na)))
