#!/usr/bin/env python3
"""Generates /verif/MANIFEST.json from the table below (single source of truth)."""
import json, subprocess, os
ROOT = os.path.dirname(os.path.dirname(os.path.abspath(__file__)))

CHECKS = {
 # id: (level, technique, text, note, design_ref)
 "C06": ("exploration", "runtime accept-set monitoring of single-gadget circuits on compiled R1CS/SCS systems (real solver, hint overrides) and on the monitoring engine, per range-check mechanism",
         "Accept-sets of RangeCheck / RangeCheckWithMaxBits(n) are observed, existentially over honest and adversarial hint outputs, on gnark's real R1CS and SCS solvers and on the evaluation engine, for the native / commit / bit-decomposition mechanisms, and compared with the exact ranges on boundary and random values; held on the executions listed in the evidence.",
         "Native range-checking builder is emulated (wrapper around real builders + engine face); commitment hints replaced by a hash; values explored are boundary+random, not all field elements.", "§3/C06"),
 "C07": ("exploration", "differential runtime monitoring of gadget outputs against a native reference (engine faces + compiled R1CS/SCS solver sample)",
         "All 10 base-field gadget outputs are executed for every triple over the structured edge values and seeded random triples under the native, bit-decomposition and commit mechanisms and compared with native Goldilocks arithmetic; a sample is re-solved on really compiled R1CS/SCS systems which must accept the engine's outputs and reject a perturbed one.",
         "Trusts ref/gl.go (validated by identities); operands are edge+random, not exhaustive.", "§3/C07"),
}

props = [json.loads(l) for l in open(os.path.join(ROOT, 'properties.jsonl'))]
checks, na = [], []
for p in props:
    pid = p['id']
    if pid in CHECKS:
        lvl, tech, text, note, ref = CHECKS[pid]
        checks.append({
            "property_id": pid,
            "quick_cmd": "./run.sh %s quick" % pid,
            "thorough_cmd": "./run.sh %s thorough" % pid,
            "evidence_file": "/verif/evidence/%s.json" % pid,
            "replay_cmd_template": "./bin/vcheck replay {path}",
            "engine": "vcheck",
            "level_claimed": {"category": lvl, "text": text, "design_ref": ref},
            "level_note": note,
            "technique": tech,
        })
    else:
        na.append({"property_id": pid, "reason": "check not built yet in this session (planned in DESIGN.md §3/%s); not claimed until it runs" % pid})
m = {
 "version": 1,
 "setup_cmd": "./setup.sh",
 "hooks": {
   "guard": "verif",
   "enable": "go build -tags verif (harness module replaces the repository module by /repo/gnark-plonky2-verifier)",
   "baseline_off_cmd": "cd /repo/gnark-plonky2-verifier && GOFLAGS=-mod=mod GOPROXY=off GOSUMDB=off GOTOOLCHAIN=local go test -vet=off -count=1 -timeout 25m ./...",
   "source_commits": subprocess.check_output(['git','-C','/repo','log','--format=%h %s','309d412..HEAD']).decode().strip().split('\n'),
   "add_only": True,
 },
 "engines": [{"name": "vcheck", "path": "/verif/harness", "serves_properties": sorted(CHECKS), "kind_free_text": "Go harness: monitoring evaluation engine (gnark frontend.API implementation with assertion/range-check/hint event stream, hint adversary, shadow integer-bound monitor), native plonky2 reference, real gnark R1CS/SCS solvers for gadget circuits, race detector workloads"}],
 "checks": checks,
 "not_applicable": na,
 "notes": "Exit codes: 0 held on everything explored, 1 violation (VIOLATION line), 2 inconclusive/harness error (never with a VIOLATION line). known_findings.json lists fixed/known defects.",
}
json.dump(m, open(os.path.join(ROOT, 'MANIFEST.json'), 'w'), indent=1)
print("manifest: %d checks, %d not_applicable" % (len(checks), len(na)))
