#!/bin/bash
# Runs the repository's test suite with the verif build tag OFF and compares the passing
# tests with /root/.vp/BASELINE.json (stable_pass). Exit 0 iff every stable test passes.
export GOFLAGS=-mod=mod GOPROXY=off GOSUMDB=off GOTOOLCHAIN=local
OUT=${1:-/tmp/baseline_off.json}
cd /repo/gnark-plonky2-verifier && go test -json -vet=off -count=1 -timeout 25m ./... > "$OUT" 2>/dev/null
python3 - "$OUT" <<'PY'
import json, sys
passed=set()
for l in open(sys.argv[1]):
    try: e=json.loads(l)
    except Exception: continue
    if e.get('Action')=='pass' and e.get('Test'):
        passed.add(e['Package']+'::'+e['Test'])
base=json.load(open('/root/.vp/BASELINE.json'))['stable_pass']
missing=[t for t in base if t not in passed]
print("baseline stable tests: %d, passing now: %d, missing: %d" % (len(base), len(base)-len(missing), len(missing)))
for m in missing: print("  MISSING", m)
sys.exit(1 if missing else 0)
PY
