#!/bin/bash
# tools/snapshot_run.sh <ID> <tier> [<ID> <tier> ...] — for `vp run --with-repo`: point the harness at the
# repository snapshot ($VP_RUN_REPO) so that edits to /repo made meanwhile do not disturb the run.
export VERIF_ROOT=$PWD
if [ -n "$VP_RUN_REPO" ]; then
  sed -i "s#=> /repo/gnark-plonky2-verifier#=> $VP_RUN_REPO/gnark-plonky2-verifier#" harness/go.mod
  export VERIF_REPO=$VP_RUN_REPO
fi
./setup.sh || exit 2
while [ $# -ge 2 ]; do
  VERIF_SEED=${VERIF_SEED:-1} ./run.sh $1 $2 | grep "SUMMARY\|VIOLATION\|KNOWN-FINDING\|INCONCLUSIVE\|violation-key\|  key="
  shift 2
done
