#!/bin/bash
# Build the framework offline from files on disk.
export GOFLAGS=-mod=mod GOPROXY=off GOSUMDB=off GOTOOLCHAIN=local
cd "$(dirname "$0")"
mkdir -p bin evidence replays scratch
( cd harness && go build -tags verif -o ../bin/vcheck ./cmd/vcheck ) || exit 1
echo "setup ok"
